"""Descriptor symmetry groups derived from idealised 3-D figures.

Nothing in here reads the repository's PERMUTATION_GROUP tables.  For every
descriptor class an idealised coordination figure is written down; a
permutation of its positions is a symmetry iff it preserves all pairwise
distances (congruence of finite point sets), and it is proper / improper
according to the sign change of one non-degenerate signed volume.  Planar
figures admit both a proper and an improper realisation of every symmetry
(compose with the mirror through the plane) - these are the achiral classes.

Convention: a descriptor ``(atoms, parity)`` puts ``atoms[i]`` on position i.
``apply(g, t)[i] = t[g[i]]``.  Because the groups are closed under inverses
the orbit of an ordering does not depend on the direction of that convention.
"""
from __future__ import annotations

import itertools
import math

_S = math.sqrt

# position -> coordinates
FIGURES: dict[str, list[tuple[float, float, float]]] = {
    # 0 centre; 1-4 vertices of a regular tetrahedron
    "Tetrahedral": [
        (0, 0, 0),
        (1, 1, 1), (1, -1, -1), (-1, 1, -1), (-1, -1, 1),
    ],
    # 0 centre; 1,2,3,4 consecutive corners of a square
    "SquarePlanar": [
        (0, 0, 0),
        (1, 0, 0), (0, 1, 0), (-1, 0, 0), (0, -1, 0),
    ],
    # 0 centre; 1,2 axial; 3,4,5 equatorial
    "TrigonalBipyramidal": [
        (0, 0, 0),
        (0, 0, 1.3), (0, 0, -1.3),
        (1, 0, 0), (-0.5, _S(3) / 2, 0), (-0.5, -_S(3) / 2, 0),
    ],
    # 0 centre; 1,2 trans; 3,4,5,6 consecutive in the ring (3 trans 5)
    "Octahedral": [
        (0, 0, 0),
        (0, 0, 1), (0, 0, -1),
        (1, 0, 0), (0, 1, 0), (-1, 0, 0), (0, -1, 0),
    ],
    # planar X2C=CY2: 0,1 on 2; 4,5 on 3; 0 cis to 4
    "PlanarBond": [
        (-1.2, 1.0, 0), (-1.2, -1.0, 0),
        (-0.6, 0, 0), (0.6, 0, 0),
        (1.2, 1.0, 0), (1.2, -1.0, 0),
    ],
    # same skeleton with the two ends twisted by 90 degrees (D2d)
    "AtropBond": [
        (-1.2, 1.0, 0), (-1.2, -1.0, 0),
        (-0.6, 0, 0), (0.6, 0, 0),
        (1.2, 0, 1.0), (1.2, 0, -1.0),
    ],
}

CLASSES = tuple(FIGURES)
ATOM_CLASSES = ("Tetrahedral", "SquarePlanar", "TrigonalBipyramidal",
                "Octahedral")
BOND_CLASSES = ("PlanarBond", "AtropBond")
NPOS = {k: len(v) for k, v in FIGURES.items()}


def _d2(p, q):
    return sum((a - b) ** 2 for a, b in zip(p, q))


def _vol(a, b, c, d):
    u = [b[i] - a[i] for i in range(3)]
    v = [c[i] - a[i] for i in range(3)]
    w = [d[i] - a[i] for i in range(3)]
    return (u[0] * (v[1] * w[2] - v[2] * w[1])
            - u[1] * (v[0] * w[2] - v[2] * w[0])
            + u[2] * (v[0] * w[1] - v[1] * w[0]))


def _groups(points):
    n = len(points)
    dist = [[_d2(points[i], points[j]) for j in range(n)] for i in range(n)]
    quad = None
    for q in itertools.combinations(range(n), 4):
        if abs(_vol(*(points[i] for i in q))) > 1e-6:
            quad = q
            break
    proper, improper = [], []
    for g in itertools.permutations(range(n)):
        ok = True
        for i in range(n):
            gi = g[i]
            row = dist[i]
            rowg = dist[gi]
            for j in range(i + 1, n):
                if abs(row[j] - rowg[g[j]]) > 1e-9:
                    ok = False
                    break
            if not ok:
                break
        if not ok:
            continue
        if quad is None:            # planar figure: every symmetry both ways
            proper.append(g)
            improper.append(g)
        else:
            v0 = _vol(*(points[i] for i in quad))
            v1 = _vol(*(points[g[i]] for i in quad))
            (proper if v0 * v1 > 0 else improper).append(g)
    return tuple(proper), tuple(improper), quad is None


PROPER: dict[str, tuple[tuple[int, ...], ...]] = {}
IMPROPER: dict[str, tuple[tuple[int, ...], ...]] = {}
ACHIRAL: dict[str, bool] = {}
for _name, _pts in FIGURES.items():
    PROPER[_name], IMPROPER[_name], ACHIRAL[_name] = _groups(_pts)

CHIRAL_CLASSES = tuple(c for c in CLASSES if not ACHIRAL[c])

# expected orders (a self-check of the figures, not of the repository)
assert {k: len(v) for k, v in PROPER.items()} == {
    "Tetrahedral": 12, "SquarePlanar": 8, "TrigonalBipyramidal": 6,
    "Octahedral": 24, "PlanarBond": 4, "AtropBond": 4}, PROPER
assert all(len(IMPROPER[c]) == len(PROPER[c]) for c in CLASSES)


def apply(g, t):
    return tuple(t[i] for i in g)


def _key(t):
    return tuple((0, 0) if a is None else (1, a) for a in t)


def parity_for_class(cls: str, parity):
    """Valid specified parities of a class."""
    return (0,) if ACHIRAL[cls] else (1, -1)


def canon(cls: str, atoms, parity):
    """Canonical form of a descriptor; equal iff same spatial arrangement.

    parity None: canonical form keeps only the multiset of atoms.
    """
    atoms = tuple(atoms)
    if parity is None:
        return (cls, tuple(sorted(_key(atoms))), None)
    if ACHIRAL[cls]:
        orbit = [apply(g, atoms) for g in PROPER[cls]]
        return (cls, min(orbit, key=_key), 0)
    if parity == -1:
        atoms = apply(IMPROPER[cls][0], atoms)
    orbit = [apply(g, atoms) for g in PROPER[cls]]
    return (cls, min(orbit, key=_key), 1)


def equivalent(d1, d2) -> bool:
    """d = (cls, atoms, parity), both with specified parity."""
    return canon(*d1) == canon(*d2)


def same_or_unspecified(d1, d2) -> bool:
    """Equivalence that lets an unspecified parity match anything over the
    same atoms of the same class."""
    if d1[0] != d2[0]:
        return False
    if d1[2] is None or d2[2] is None:
        return sorted(_key(d1[1])) == sorted(_key(d2[1]))
    return canon(*d1) == canon(*d2)


def invert(d):
    cls, atoms, parity = d
    if parity in (None, 0):
        return d
    return (cls, tuple(atoms), -parity)


def relation(cls: str, t, p, t2, p2) -> bool:
    """Ground truth for ``Cls(t, p) == Cls(t2, p2)`` with specified parities:
    t2 in the proper orbit of t with equal parity, or in the improper orbit
    with opposite parity (achiral classes: orbit membership)."""
    t, t2 = tuple(t), tuple(t2)
    if ACHIRAL[cls]:
        return any(apply(g, t) == t2 for g in PROPER[cls])
    if p == p2:
        return any(apply(g, t) == t2 for g in PROPER[cls])
    return any(apply(g, t) == t2 for g in IMPROPER[cls])


def respell(cls: str, atoms, parity, k: int, improper: bool = False):
    """Another spelling of the same arrangement: the k-th proper element
    (same parity) or the k-th improper element (opposite parity)."""
    atoms = tuple(atoms)
    if improper and not ACHIRAL[cls] and parity in (1, -1):
        g = IMPROPER[cls][k % len(IMPROPER[cls])]
        return (cls, apply(g, atoms), -parity)
    if parity is None:
        # any permutation that keeps the centre (atom classes) or the bond
        # atoms in place is an equal spelling of an unspecified descriptor;
        # stay conservative and use a group element
        pass
    g = PROPER[cls][k % len(PROPER[cls])]
    return (cls, apply(g, atoms), parity)
