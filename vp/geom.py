"""Geometry helpers: pinned covalent radii, rigid motions, templates,
general-position margins.  Plain Python floats (math), no numpy needed."""
from __future__ import annotations

import math

# pinned copy of the Pyykko-Atsumi single-bond covalent radii (Angstrom) as
# shipped with the pinned commit; deliberately NOT imported from the repo
RADII = {
    1: 0.32, 2: 0.46, 3: 1.33, 4: 1.02, 5: 0.85, 6: 0.75, 7: 0.71, 8: 0.63,
    9: 0.64, 10: 0.67, 11: 1.55, 12: 1.39, 13: 1.26, 14: 1.16, 15: 1.11,
    16: 1.03, 17: 0.99, 18: 0.96, 19: 1.96, 20: 1.71, 21: 1.48, 22: 1.36,
    23: 1.34, 24: 1.22, 25: 1.19, 26: 1.16, 27: 1.11, 28: 1.1, 29: 1.12,
    30: 1.18, 31: 1.24, 32: 1.21, 33: 1.21, 34: 1.16, 35: 1.14, 36: 1.17,
    37: 2.1, 38: 1.85, 39: 1.63, 40: 1.54, 41: 1.47, 42: 1.38, 43: 1.28,
    44: 1.25, 45: 1.25, 46: 1.2, 47: 1.28, 48: 1.36, 49: 1.42, 50: 1.4,
    51: 1.4, 52: 1.36, 53: 1.33, 54: 1.31, 55: 2.32, 56: 1.96, 57: 1.8,
    58: 1.63, 59: 1.76, 60: 1.74, 61: 1.73, 62: 1.72, 63: 1.68, 64: 1.69,
    65: 1.68, 66: 1.67, 67: 1.66, 68: 1.65, 69: 1.64, 70: 1.7, 71: 1.62,
    72: 1.52, 73: 1.46, 74: 1.37, 75: 1.31, 76: 1.29, 77: 1.22, 78: 1.23,
    79: 1.24, 80: 1.33, 81: 1.44, 82: 1.44, 83: 1.51, 84: 1.45, 85: 1.47,
    86: 1.42, 87: 2.23, 88: 2.01, 89: 1.86, 90: 1.75, 91: 1.69, 92: 1.7,
    93: 1.71, 94: 1.72, 95: 1.66, 96: 1.66, 97: 1.68, 98: 1.68, 99: 1.65,
    100: 1.67, 101: 1.73, 102: 1.76, 103: 1.61, 104: 1.57, 105: 1.49,
    106: 1.43, 107: 1.41, 108: 1.34, 109: 1.29, 110: 1.28, 111: 1.21,
    112: 1.22, 113: 1.36, 114: 1.43, 115: 1.62, 116: 1.75, 117: 1.65,
    118: 1.57,
}
assert len(RADII) == 118

SYMBOL = {
    1: 'H', 2: 'He', 3: 'Li', 4: 'Be', 5: 'B', 6: 'C', 7: 'N', 8: 'O',
    9: 'F', 10: 'Ne', 11: 'Na', 12: 'Mg', 13: 'Al', 14: 'Si', 15: 'P',
    16: 'S', 17: 'Cl', 18: 'Ar', 19: 'K', 20: 'Ca', 21: 'Sc', 22: 'Ti',
    23: 'V', 24: 'Cr', 25: 'Mn', 26: 'Fe', 27: 'Co', 28: 'Ni', 29: 'Cu',
    30: 'Zn', 31: 'Ga', 32: 'Ge', 33: 'As', 34: 'Se', 35: 'Br', 36: 'Kr',
    37: 'Rb', 38: 'Sr', 39: 'Y', 40: 'Zr', 41: 'Nb', 42: 'Mo', 43: 'Tc',
    44: 'Ru', 45: 'Rh', 46: 'Pd', 47: 'Ag', 48: 'Cd', 49: 'In', 50: 'Sn',
    51: 'Sb', 52: 'Te', 53: 'I', 54: 'Xe', 55: 'Cs', 56: 'Ba', 57: 'La',
    58: 'Ce', 59: 'Pr', 60: 'Nd', 61: 'Pm', 62: 'Sm', 63: 'Eu', 64: 'Gd',
    65: 'Tb', 66: 'Dy', 67: 'Ho', 68: 'Er', 69: 'Tm', 70: 'Yb', 71: 'Lu',
    72: 'Hf', 73: 'Ta', 74: 'W', 75: 'Re', 76: 'Os', 77: 'Ir', 78: 'Pt',
    79: 'Au', 80: 'Hg', 81: 'Tl', 82: 'Pb', 83: 'Bi', 84: 'Po', 85: 'At',
    86: 'Rn', 87: 'Fr', 88: 'Ra', 89: 'Ac', 90: 'Th', 91: 'Pa', 92: 'U',
    93: 'Np', 94: 'Pu', 95: 'Am', 96: 'Cm', 97: 'Bk', 98: 'Cf', 99: 'Es',
    100: 'Fm', 101: 'Md', 102: 'No', 103: 'Lr', 104: 'Rf', 105: 'Db',
    106: 'Sg', 107: 'Bh', 108: 'Hs', 109: 'Mt', 110: 'Ds', 111: 'Rg',
    112: 'Cn', 113: 'Nh', 114: 'Fl', 115: 'Mc', 116: 'Lv', 117: 'Ts',
    118: 'Og',
}


def cutoff(z1, z2):
    return 1.2 * (RADII[z1] + RADII[z2])


def dist(p, q):
    return math.dist(p, q)


def sub(p, q):
    return (p[0] - q[0], p[1] - q[1], p[2] - q[2])


def add(p, q):
    return (p[0] + q[0], p[1] + q[1], p[2] + q[2])


def scale(p, s):
    return (p[0] * s, p[1] * s, p[2] * s)


def dot(p, q):
    return p[0] * q[0] + p[1] * q[1] + p[2] * q[2]


def cross(p, q):
    return (p[1] * q[2] - p[2] * q[1], p[2] * q[0] - p[0] * q[2],
            p[0] * q[1] - p[1] * q[0])


def norm(p):
    return math.sqrt(dot(p, p))


def unit(p):
    n = norm(p)
    return (p[0] / n, p[1] / n, p[2] / n)


def quat_matrix(q):
    """rotation matrix of a (not necessarily unit) quaternion (w,x,y,z)"""
    w, x, y, z = q
    n = math.sqrt(w * w + x * x + y * y + z * z)
    if n < 1e-9:
        w, x, y, z, n = 1.0, 0.0, 0.0, 0.0, 1.0
    w, x, y, z = w / n, x / n, y / n, z / n
    return (
        (1 - 2 * (y * y + z * z), 2 * (x * y - z * w), 2 * (x * z + y * w)),
        (2 * (x * y + z * w), 1 - 2 * (x * x + z * z), 2 * (y * z - x * w)),
        (2 * (x * z - y * w), 2 * (y * z + x * w), 1 - 2 * (x * x + y * y)),
    )


def rot_angle_deg(R):
    tr = R[0][0] + R[1][1] + R[2][2]
    return math.degrees(math.acos(max(-1.0, min(1.0, (tr - 1) / 2))))


def matvec(R, p):
    return (dot(R[0], p), dot(R[1], p), dot(R[2], p))


def transform(coords, R=None, t=(0.0, 0.0, 0.0), mirror_normal=None):
    out = []
    for p in coords:
        p = tuple(p)
        if mirror_normal is not None:
            n = unit(mirror_normal)
            p = sub(p, scale(n, 2 * dot(p, n)))
        if R is not None:
            p = matvec(R, p)
        out.append(add(p, t))
    return out


def draw_quat(tp):
    return tuple((tp.below(2001) - 1000) / 1000.0 for _ in range(4))


def draw_vec(tp, scale_=1.0):
    return tuple((tp.below(2001) - 1000) / 1000.0 * scale_ for _ in range(3))


def draw_unit(tp):
    for _ in range(10):
        v = draw_vec(tp)
        if norm(v) > 0.2:
            return unit(v)
    return (1.0, 0.0, 0.0)


# ---------------------------------------------------------------------------
# idealised coordination templates: direction vectors of the ligands, in the
# position order of vp/symmetry.FIGURES (positions 1..k)

_S3 = math.sqrt(3)
TEMPLATES = {
    "Tetrahedral": [unit(v) for v in
                    ((1, 1, 1), (1, -1, -1), (-1, 1, -1), (-1, -1, 1))],
    "SquarePlanar": [(1, 0, 0), (0, 1, 0), (-1, 0, 0), (0, -1, 0)],
    "TrigonalBipyramidal": [(0, 0, 1), (0, 0, -1), (1, 0, 0),
                            (-0.5, _S3 / 2, 0), (-0.5, -_S3 / 2, 0)],
    "Octahedral": [(0, 0, 1), (0, 0, -1), (1, 0, 0), (0, 1, 0), (-1, 0, 0),
                   (0, -1, 0)],
}


def point_plane_distance(p, a, b, c):
    n = cross(sub(a, b), sub(c, b))
    ln = norm(n)
    if ln < 1e-9:
        return None
    return abs(dot(scale(n, 1 / ln), sub(p, b)))


def signed_volume(a, b, c, d):
    return dot(sub(b, a), cross(sub(c, a), sub(d, a)))


def angle_deg(a, b, c):
    u, v = sub(a, b), sub(c, b)
    cs = dot(u, v) / (norm(u) * norm(v))
    return math.degrees(math.acos(max(-1.0, min(1.0, cs))))
