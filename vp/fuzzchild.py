"""Coverage-guided stage (atheris / libFuzzer) of the thorough tier.

    python -m vp.fuzzchild <ID> <seed> <shard> <nshards> <runs> <outfile>

One child = one libFuzzer campaign over the *same* generators and the *same*
checks the Hypothesis stage uses: the property module's ``run(ctx)`` is called
with a collecting context whose ``hyp`` only registers (name, gen, tape size,
check).  libFuzzer's bytes are the tape: the first byte selects the target,
the rest is cut / zero-padded to the target's tape length, ``gen`` turns it
into a recipe and ``check`` decides it exactly as in the Hypothesis stage
(known findings counted, every other signature recorded once, un-minimised;
the parent minimises).  Only the package under test is instrumented, so the
coverage signal is the library's own Python code.

libFuzzer ends the process without unwinding, so the child writes its result
file every ``DUMP_EVERY`` executions and after every new signature.  The
campaign is pinned only approximately by ``-seed``; what is reproducible is
the recorded case.
"""
from __future__ import annotations

import json
import os
import sys
import time

DUMP_EVERY = 500


def main():
    pid, seed, shard, nshards, runs, outfile = sys.argv[1:7]
    seed, shard, nshards, runs = int(seed), int(shard), int(nshards), int(runs)
    import warnings
    warnings.filterwarnings("ignore")
    import atheris
    import logging
    logging.disable(logging.CRITICAL)
    with atheris.instrument_imports(include=["stereomolgraph"],
                                    enable_loader_override=False):
        import stereomolgraph  # noqa: F401
        import stereomolgraph.graphs  # noqa: F401
        import stereomolgraph.algorithms.isomorphism  # noqa: F401
        import stereomolgraph.algorithms.color_refine  # noqa: F401
        import stereomolgraph.stereodescriptors  # noqa: F401
        import stereomolgraph.experimental  # noqa: F401
        import stereomolgraph.coords  # noqa: F401
    logging.disable(logging.NOTSET)
    from vp import harness
    from vp.harness import (CaseTimeout, Ctx, HarnessError, Violation,
                            _json_default, as_violation, case_limit,
                            match_known, origin_is_repo, time_limit)
    src = os.path.realpath(os.path.dirname(stereomolgraph.__file__))
    if not src.startswith(os.path.realpath(harness.REPO_SRC) + os.sep):
        print(f"fuzzchild: stereomolgraph from {src}", file=sys.stderr)
        os._exit(2)
    import importlib
    mod = importlib.import_module(f"vp.props.{pid.lower()}")

    class Collect(Ctx):
        collect_only = True

        def __init__(self, *a, **k):
            super().__init__(*a, **k)
            self.targets = []

        def hyp(self, name, strategy, check, n_examples, **kw):
            from vp.strategies import TAPE_REGISTRY
            ent = TAPE_REGISTRY.get(id(strategy))
            if ent is None:
                return                  # not a tape strategy: not fuzzed
            self.targets.append((name, ent[0], int(ent[1]), check))

    ctx = Collect(pid, "thorough", seed, shard, nshards)
    mod.run(ctx)
    if not ctx.targets:
        print("fuzzchild: no targets", file=sys.stderr)
        os._exit(2)
    state = {"execs": 0, "errors": [], "t0": time.time(),
             "secs": int(os.environ.get("VP_FUZZ_SECONDS", "300"))}
    seen = set()

    def dump(final=False):
        res = ctx.result()
        res["extra"] = dict(res["extra"])
        res["extra"]["atheris_executions"] = state["execs"]
        res["harness_errors"] = state["errors"][:3]
        res["final"] = final
        tmp = outfile + ".tmp"
        with open(tmp, "w") as fh:
            json.dump(res, fh, default=_json_default)
        os.replace(tmp, outfile)

    def record(v, case):
        k = match_known(ctx.known, v.sig)
        if k is not None:
            ctx.known_hits[k["id"]] += 1
            ctx.known_example.setdefault(k["id"], v.sig)
            return
        if v.sig in seen:
            return
        seen.add(v.sig)
        ctx.violations.append({"sig": v.sig, "msg": v.msg,
                               "case": v.case if v.case is not None
                               else case})
        dump()

    def one(data: bytes):
        state["execs"] += 1
        if not data:
            return
        name, gen, size, check = ctx.targets[data[0] % len(ctx.targets)]
        tape = data[1:1 + size]
        if len(tape) < size:
            tape = tape + bytes(size - len(tape))
        case = None
        try:
            case = gen(tape)
            before = ctx.evaluations
            with time_limit(case_limit("thorough")):
                check(case)
            if ctx.evaluations > before:
                ctx.classes[f"engine:atheris:{name}"] += 1
        except CaseTimeout:
            ctx.exclude("case-exceeded-the-time-limit")
        except Violation as v:
            record(v, case)
        except HarnessError as e:
            if len(state["errors"]) < 3:
                state["errors"].append(f"{name}: {e}")
        except (KeyboardInterrupt, MemoryError):
            raise
        except Exception as e:
            if origin_is_repo(e):
                record(as_violation(pid, e), case)
            else:
                import traceback
                if len(state["errors"]) < 3:
                    state["errors"].append(traceback.format_exc()[-1500:])
        late = time.time() - state["t0"] > state["secs"] - 8
        if state["execs"] % DUMP_EVERY == 0 or state["execs"] >= runs or late:
            if late and state["execs"] % 20 and state["execs"] < runs:
                return
            dump(final=state["execs"] >= runs or late)

    maxlen = 1 + max(t[2] for t in ctx.targets)
    corpus = outfile + ".corpus"
    os.makedirs(corpus, exist_ok=True)
    # starting corpus: the empty tape and one pseudo-random tape per target
    import hashlib
    for k, t in enumerate(ctx.targets):
        with open(os.path.join(corpus, f"zero{k}"), "wb") as fh:
            fh.write(bytes([k]) + bytes(8))
        h = hashlib.shake_256(f"{seed}-{shard}-{k}".encode()).digest(t[2])
        with open(os.path.join(corpus, f"rand{k}"), "wb") as fh:
            fh.write(bytes([k]) + h)
    dump()
    secs = int(os.environ.get("VP_FUZZ_SECONDS", "300"))
    argv = [sys.argv[0], f"-runs={runs}", f"-seed={seed * 1000 + shard + 1}",
            f"-max_total_time={secs}",
            f"-max_len={maxlen}", "-len_control=0", "-verbosity=0",
            "-print_final_stats=0", corpus]
    atheris.Setup(argv, one)
    atheris.Fuzz()


if __name__ == "__main__":
    main()
