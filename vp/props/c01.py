"""C01 - Equality never misses: renamed / re-expressed graphs compare equal.

Metamorphic: a graph and a renamed, re-ordered, re-spelled variant (known to
be the same graph by construction) must compare equal in every direction.
"""
from __future__ import annotations

from vp import recipes as rc
from vp import strategies as S
from vp.harness import HarnessError, Violation, guard
from vp.model import Model

ID = "C01"
LEVEL = "exploration"
QUICK_SHARDS = 4
MIN_NONTRIVIAL = 50
FUZZ_RUNS = 160000     # thorough tier: atheris executions (all children)
RULE = (
    "Hypothesis byte tape -> recipe of one of the four classes (0-30 atoms, "
    "arbitrary int ids, 1-4 elements, all six descriptor classes valid by "
    "construction, placeholders, unspecified parity, formed/broken/fleeting "
    "bonds, stereo changes with 1-3 roles, isolated atoms, several "
    "components, empty graph) and a variant = bijective renaming o shuffled "
    "insertion order of atoms/bonds/descriptors/changes o re-expression of "
    "every descriptor by a random proper (or improper with flipped parity) "
    "element of the geometric oracle; variant built fresh, or obtained by "
    "the library's relabel_atoms (copy / in place); a third source builds the "
    "graph through a random editing history (removals, in-place relabels, "
    "deleted descriptors / changes) and compares it with a renamed fresh "
    "build of the same labelled graph (in half of the histories read-only "
    "uses - hash, ==, views - happen after every edit). Oracle: a==b, b==a, "
    "a.is_isomorphic(b), a==a, b==b all True. Non-trivial: renaming moves "
    ">=1 atom AND the graph has a descriptor, stereo change, non-plain bond, "
    "isolated atom or >=2 components; distinct = SHA-1 of the case."
)
ASSUMPTIONS = [
    "descriptor re-expression uses vp/symmetry.py (validated against the "
    "descriptor classes exhaustively by C04)",
    "stereo changes are generated consistently with bond roles (a BROKEN "
    "bond descriptor only on a bond present in the reactant, etc.)",
]
TRUSTED = ["vp/symmetry.py", "vp/model.py relabel"]


def gen_huge(data: bytes):
    """graphs beyond 128 atoms (index arithmetic, narrow array dtypes);
    the short drawn tape seeds a long derived one"""
    tp = S.seed_tape(int.from_bytes(data[:12], "big"), n=20000)
    cls = tp.pick(["SMG", "SCRG", "MG", "CRG", "SMG"])
    m = S.gen_model(tp, cls, nmax=190, nmin=130, none_parity=0, wide=False,
                    family=tp.pick(["tree", "sparse", "tree"]), kmax=3)
    a = S.shuffled_recipe(tp, m)
    mp = S.renaming(tp, m.atoms)
    return {"via": "build", "a": a, "mapping": [[k, v] for k, v in mp.items()],
            "tseed": tp.below(1 << 30)}


def gen(data: bytes):
    tp = S.Tape(data)
    cls = tp.pick(["MG", "SMG", "CRG", "SCRG", "SMG", "SCRG"])
    big = tp.chance(40)
    m = S.gen_model(tp, cls, nmax=30 if big else 8, none_parity=25,
                    wide=True,
                    family="bigstar" if tp.chance(6) else None)
    a = S.shuffled_recipe(tp, m)
    via = ("build", "relabel-copy", "relabel-inplace")[
        tp.weighted([6, 2, 2])]
    mp = S.renaming(tp, m.atoms)
    return {"via": via, "a": a, "mapping": [[k, v] for k, v in mp.items()],
            "tseed": tp.below(1 << 30)}


def _tag(r):
    f = rc.features(r)
    if "empty" in f:
        return "empty"
    if "has-change" in f:
        return "stereo-change"
    if "has-isolated" in f:
        return "isolated-atom"
    return "plain"


def derive(case):
    """-> (model a, recipe b, info)"""
    ma = rc.require_valid(case["a"])
    mp = [(k, v) for k, v in case["mapping"] if k in ma.atoms]
    if len({v for _, v in mp}) != len(mp) or {k for k, _ in mp} != set(
            ma.atoms):
        raise HarnessError("C01 case: mapping must be a total bijection")
    rb, info = S.variant_from(ma, mp, case["tseed"])
    return ma, rb, info, dict(mp)


def nontrivial(case, ma, info):
    r = case["a"]
    if info["moved"] < 1:
        return False
    f = rc.features(r)
    if rc.n_descs(r) or "has-role" in f or "has-isolated" in f:
        return True
    return len(ma.components()) >= 2


def shrink(case):
    for cand in rc.shrink_candidates(case["a"]):
        yield {**case, "a": cand}
    ma = rc.model(case["a"])
    small = {a: i for i, a in enumerate(sorted(ma.atoms))}
    if any(a != i for a, i in small.items()):
        yield {**case, "a": rc.from_model(ma.relabel(small)),
               "mapping": [[small[k], v] for k, v in case["mapping"]
                           if k in small]}
    mp = [(k, v) for k, v in case["mapping"] if k in ma.atoms]
    tgt = [[k, 100 + i] for i, (k, v) in enumerate(sorted(mp))]
    if tgt != [list(x) for x in sorted(mp)]:
        yield {**case, "mapping": tgt}


def check_pair(ctx, case):
    """independently built pair that the brute-force oracle finds isomorphic
    (so b is a renamed / re-ordered / re-spelled a) must compare equal"""
    from vp import iso
    ma = rc.require_valid(case["a"])
    mb = rc.require_valid(case["b"])
    if ma.cls != mb.cls or len(ma.atoms) > 20:
        raise HarnessError("C01 pair case: same class and n <= 20 required")
    try:
        if not iso.exists(ma, mb):
            return False
    except iso.BudgetExceeded:
        return False
    cls = ma.cls
    tag = _tag(case["a"])
    a, b = rc.build(case["a"]), rc.build(case["b"])
    for name, x, y in (("a==b", a, b), ("b==a", b, a)):
        with guard(f"C01/{cls}/pair/{name}/{tag}"):
            res = (x == y)
        if res is not True:
            raise Violation(f"C01/{cls}/pair/{name}-false/{tag}",
                            f"{name} returned {res!r} although a bijection "
                            f"preserving everything exists")
    return True


def shrink_pair(case):
    for cand in rc.shrink_candidates(case["a"]):
        yield {**case, "a": cand}
    for cand in rc.shrink_candidates(case["b"]):
        yield {**case, "b": cand}


HIST_IDS = [0, 1, 2, 3, 5, 8, -1, -4, 17, 40, 2**33]


def check_history(ctx, case):
    """a graph reached through an editing history (removals, in-place
    relabels, deleted stereo changes ...) must compare equal to a renamed
    fresh build of the same labelled graph, and so must its own renaming"""
    from vp import ops as O
    from vp.model import validity_error
    cls = case["cls"]
    m = O.replay_model(cls, case["ops"])
    if validity_error(m, strict=False) is not None:
        return None                       # odd state: not a C01 input
    g = rc.classes()[cls]()
    try:
        for op in case["ops"]:
            g = O.apply_real(g, op)
            # read-only uses between the edits: a memoised hash / component
            # list / colouring must not survive the next edit
            O.pre_use(g, case.get("observe", 0))
    except Exception:
        return None                       # C09's business
    mp = {a: b for a, b in case["mapping"] if a in m.atoms}
    for a in m.atoms:
        mp.setdefault(a, a)
    if len(set(mp.values())) != len(mp):
        raise HarnessError("history case: mapping not injective")
    rb, info = S.variant_from(m, list(mp.items()), case["tseed"])
    b = rc.build(rb)
    tag = "history"
    with guard(f"C01/{cls}/history/relabel"):
        c = g.relabel_atoms(dict(mp), copy=True)
    for name, x, y in (("g==fresh", g, b), ("fresh==g", b, g),
                       ("g==g", g, g), ("g==relabelled", g, c),
                       ("relabelled==fresh", c, b)):
        with guard(f"C01/{cls}/history/{name}"):
            res = (x == y)
        if res is not True:
            raise Violation(f"C01/{cls}/history/{name}-false",
                            f"{name} returned {res!r} after the history")
    return m, info


def shrink_history(case):
    ops = case["ops"]
    for i in range(len(ops) - 1, -1, -1):
        yield {**case, "ops": ops[:i] + ops[i + 1:]}


def check_case(ctx, case):
    if case.get("via") == "pair":
        check_pair(ctx, case)
        return
    if case.get("via") == "history":
        check_history(ctx, case)
        return
    r = case["a"]
    cls = r["cls"]
    via = case["via"]
    tag = _tag(r)
    ma, rb, info, mp = derive(case)
    a = rc.build(r)
    if via == "build":
        b = rc.build(rb)
    else:
        src = rc.build(r)
        with guard(f"C01/{cls}/{via}/relabel/{tag}"):
            if via == "relabel-copy":
                b = src.relabel_atoms(mp, copy=True)
            else:
                src.relabel_atoms(mp, copy=False)
                b = src
    for name, x, y in (("a==b", a, b), ("b==a", b, a), ("a==a", a, a),
                       ("b==b", b, b)):
        with guard(f"C01/{cls}/{via}/{name}/{tag}"):
            res = (x == y)
        if res is not True:
            raise Violation(f"C01/{cls}/{via}/{name}-false/{tag}",
                            f"{name} returned {res!r}")
    with guard(f"C01/{cls}/{via}/is_isomorphic/{tag}"):
        res = a.is_isomorphic(b)
    if res is not True:
        raise Violation(f"C01/{cls}/{via}/is_isomorphic-false/{tag}",
                        f"returned {res!r}")
    # the same graph once more as a derived object: subgraph over all atoms
    # in another order (its internal tables are filled in other orders) and
    # a copy of that
    order = S.seed_tape(case["tseed"] + 5).shuffle(list(ma.atoms))
    with guard(f"C01/{cls}/{via}/derived-by-subgraph/{tag}"):
        d1 = a.subgraph(order)
        d2 = d1.copy()
    for name, x, y in (("subgraph==b", d1, b), ("b==subgraph", b, d1),
                       ("a==subgraph", a, d1), ("copy-of-subgraph==b", d2, b)):
        with guard(f"C01/{cls}/{via}/{name}/{tag}"):
            res = (x == y)
        if res is not True:
            raise Violation(f"C01/{cls}/{via}/{name}-false/{tag}",
                            f"{name} returned {res!r}")


def run(ctx):
    n = ctx.scale(4000, 320000)

    def check(case):
        ma, rb, info, mp = derive(case)
        labs = rc.features(case["a"]) + [f"via:{case['via']}"]
        if info["moved"]:
            labs.append("renamed")
        if info["respelled"] and case["via"] == "build":
            labs.append("respelled")
        ctx.note(case, nontrivial(case, ma, info), labs)
        check_case(ctx, case)

    ctx.hyp("c01", S.mapped(900, gen), check, n, shrinker=shrink)
    ctx.hyp("c01-huge", S.mapped(12, gen_huge), check,
            ctx.scale(24, 640), shrinker=shrink)

    # second source: independent pairs (tiny universe / mutants / ring
    # families, unspecified parity excluded) that the brute-force oracle
    # declares isomorphic
    from vp.props import c02

    def gen_p(data):
        case = c02.gen_pair(S.Tape(data), sources=(6, 3, 3, 0, 0))
        case["via"] = "pair"
        return case

    def check_p(case):
        ma, mb = rc.model(case["a"]), rc.model(case["b"])
        if ma.cls != mb.cls or len(ma.atoms) > 20:
            ctx.exclude("pair-not-comparable")
            return
        iso_found = check_pair(ctx, case)
        ctx.note(case, bool(iso_found) and rc.n_descs(case["a"]) > 0,
                 ["via:pair", "pair-isomorphic" if iso_found
                  else "pair-not-isomorphic"])

    ctx.hyp("c01-pairs", S.mapped(1200, gen_p), check_p,
            ctx.scale(3000, 150000), shrinker=shrink_pair)

    # third source: graphs reached through editing histories
    def gen_h(data):
        tp = S.Tape(data)
        cls = tp.pick(["MG", "SMG", "CRG", "SCRG"])
        ops, m = S.history(tp, cls, HIST_IDS, 4 + tp.below(30))
        atoms = list(m.atoms)
        pool = [i for i in HIST_IDS + [600, 601, 602, 603] if True]
        k = tp.weighted([2, 3])
        if k == 0 or not atoms:
            mp = {a: a for a in atoms}
        else:
            mp = dict(zip(atoms, tp.shuffle(
                list(dict.fromkeys(atoms + pool)))[:len(atoms)]))
        return {"via": "history", "cls": cls, "ops": ops,
                "mapping": [[a, b] for a, b in mp.items()],
                "tseed": tp.below(1 << 30),
                "observe": tp.pick([0, 0, 1, 3])}

    def check_h(case):
        res = check_history(ctx, case)
        if res is None:
            ctx.exclude("history-not-a-clean-graph")
            return
        m, info = res
        kinds = {o[0] for o in case["ops"]}
        ctx.note(case, bool(kinds & {"remove_atom", "remove_bond",
                                     "relabel_inplace", "del_atom_change",
                                     "del_bond_change"}) and len(m.atoms) > 1,
                 ["via:history", f"cls:{case['cls']}"]
                 + [f"hist:{k}" for k in kinds])

    ctx.hyp("c01-history", S.mapped(2500, gen_h), check_h,
            ctx.scale(1500, 100000), shrinker=shrink_history)
