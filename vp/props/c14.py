"""C14 - Stereo from RDKit annotations agrees with stereo from 3D
coordinates."""
from __future__ import annotations

import itertools

from vp import geom as G
from vp import rdgen
from vp import strategies as S
from vp import symmetry as sym
from vp.harness import HarnessError, Violation, guard
from vp.snapshot import snapshot

ID = "C14"
LEVEL = "exploration"
QUICK_SHARDS = 4
MIN_NONTRIVIAL = 50
RULE = (
    "(1) organic molecules over C, H, N, O, S, halogens generated "
    "constructively with a drawn configuration for every stereo element "
    "(every stereoisomer reachable), explicit H, embedded with ETKDG under "
    "a drawn seed; conformers whose RDKit-re-perceived stereo differs from "
    "the input, whose distance connectivity differs from the bonds, or "
    "which fail the general-position margins, contain a collapsed bond "
    "(shorter than 0.7 x the sum of the covalent radii), a four-coordinate "
    "atom whose ligands are coplanar by the oracle's own measure (a failed "
    "embedding: all four-coordinate atoms here are sp3) or a quadruple "
    "straddling the planarity threshold (open finding F-C07) are skipped "
    "and counted. "
    "Oracle: the graph from RDMol2StereoMolGraph(stereo_complete=True, "
    "lone_pair_stereo=False, resonance=True) and the graph from "
    "from_geometry(from_xyz(MolToXYZBlock)) have the same bonds, equivalent "
    "descriptors on every tetrahedral stereocentre and every labelled "
    "formal double bond, and compare equal once PlanarBond descriptors on "
    "all other bonds are removed from both. (2) single-centre SP / TB / OH "
    "complexes with pairwise distinct monoatomic ligands: all 24 / 120 / "
    "720 placements on the vertices x drawn atom orders x bond insertion "
    "orders x noise; the descriptor imported from the label RDKit assigns "
    "from that 3-D arrangement must be equivalent to the descriptor "
    "perceived from the same coordinates. Non-trivial: (1) at least one "
    "true stereocentre or labelled double bond; (2) every case."
)
ASSUMPTIONS = [
    "trusted: ETKDG honours assigned stereo (re-verified per conformer with "
    "AssignStereochemistryFrom3D), MolToXYZBlock, "
    "AssignStereochemistryFrom3D",
    "perception from coordinates has no notion of lone pairs, hence "
    "lone_pair_stereo=False (as in the repository's own comparison test)",
]
TRUSTED = ["RDKit ETKDG", "Chem.AssignStereochemistryFrom3D",
           "vp/props/c07.margins"]


def gen1(data: bytes):
    tp = S.Tape(data)
    smi = rdgen.organic_smiles(tp, max_heavy=9)
    if smi is None:
        smi = "C[C@H](F)Cl"
    case = {"part": 1, "smiles": smi, "embed_seed": 1 + tp.below(10**6)}
    if tp.chance(128):
        mol = rdgen.mol_from_smiles(smi)
        if mol is not None:
            case["perm"] = tp.shuffle(range(mol.GetNumAtoms()))
    if tp.chance(90):
        mol = rdgen.mol_from_smiles(smi)
        if mol is not None:
            n = mol.GetNumAtoms()
            case["maps"] = ([i + 1 for i in range(n)] if tp.chance(100)
                            else [1 + x for x in
                                  tp.shuffle(range(n + 7))[:n]])
    return case


def _desc(s):
    return None if s is None else (type(s).__name__, tuple(s.atoms),
                                   s.parity)


def check_organic(ctx, case):
    from rdkit import Chem
    from rdkit.Chem import AllChem
    from vp.props.c07 import margins, _adjacency, straddles, _quad_class
    from vp.props.c12 import true_stereocentres_only
    mol = rdgen.mol_from_smiles(case["smiles"])
    if mol is None:
        raise HarnessError("unparsable SMILES")
    if not rdgen.fully_specified(mol) or not true_stereocentres_only(mol):
        ctx.exclude("stereo-not-fully-specified")
        return None
    if any(a.GetAtomicNum() not in (1, 6, 7, 8, 16, 9, 17, 35, 53)
           or a.GetDegree() > 4 for a in mol.GetAtoms()):
        ctx.exclude("outside-element-domain")
        return None
    m3 = Chem.Mol(mol)
    try:
        cid = AllChem.EmbedMolecule(m3, randomSeed=int(case["embed_seed"]))
    except Exception:
        cid = -1
    if cid != 0:
        ctx.exclude("embedding-failed")
        return None
    # did the embedding keep the stereo? (RDKit's own re-perception)
    chk = Chem.Mol(m3)
    Chem.AssignStereochemistryFrom3D(chk)
    if Chem.MolToSmiles(chk) != Chem.MolToSmiles(mol) or not (
            chk.GetSubstructMatch(mol, useChirality=True)
            and mol.GetSubstructMatch(chk, useChirality=True)):
        # (the canonical string alone is not a reliable witness for E/Z
        # bonds in rings, see C12)
        ctx.exclude("embedding-changed-stereo")
        return None
    if case.get("perm"):
        # the same embedded molecule with its atoms (and therefore the begin
        # / end atoms of its bonds) in another order; the conformer follows
        perm = [int(x) for x in case["perm"]]
        if sorted(perm) != list(range(m3.GetNumAtoms())):
            raise HarnessError("perm")
        m3 = Chem.RenumberAtoms(m3, perm)
        mol = Chem.RenumberAtoms(mol, perm)
    conf = m3.GetConformer()
    elems = [a.GetAtomicNum() for a in m3.GetAtoms()]
    coords = [tuple(conf.GetAtomPosition(i)) for i in range(len(elems))]
    why = margins(elems, coords)
    if why:
        ctx.exclude(f"margin:{why}")
        return None
    adj = _adjacency(elems, coords)
    rd_bonds = {frozenset((b.GetBeginAtomIdx(), b.GetEndAtomIdx()))
                for b in m3.GetBonds()}
    # a collapsed embedding (ETKDG occasionally returns one: a C-H distance
    # of 0.4 A, a flattened sp3 carbon) is not a conformer of the molecule
    for bd in rd_bonds:
        i, j = tuple(bd)
        if G.norm(G.sub(coords[i], coords[j])) < 0.7 * (
                G.RADII[elems[i]] + G.RADII[elems[j]]):
            ctx.exclude("embedding-collapsed-bond")
            return None
    if straddles(elems, coords):
        # order-dependent planarity test: open finding F-C07, reported there
        ctx.exclude("straddling-planarity")
        return None
    for i, nb in adj.items():
        if len(nb) == 4 and _quad_class(
                [coords[j] for j in sorted(nb)]) != "nonplanar":
            # every four-coordinate atom of this domain is sp3; ETKDG now
            # and then returns one squashed flat (C-C-C angle near 180)
            ctx.exclude("embedding-flattened-sp3-centre")
            return None
    my_bonds = {frozenset((i, j)) for i, nb in adj.items() for j in nb}
    if rd_bonds != my_bonds:
        ctx.exclude("distance-connectivity-differs-from-bonds")
        return None
    from stereomolgraph import StereoMolGraph
    from stereomolgraph.coords import Geometry
    from stereomolgraph.rdmol2graph import RDMol2StereoMolGraph
    conv = RDMol2StereoMolGraph(stereo_complete=True, lone_pair_stereo=False,
                                resonance=True)
    maps = case.get("maps")
    if maps:
        # identifiers taken from atom-map numbers that differ from the
        # RDKit indices; the coordinate graph is renamed the same way below
        if len(maps) != len(elems) or len(set(maps)) != len(maps) or \
                min(maps) < 1:
            raise HarnessError("maps")
        for at, v in zip(m3.GetAtoms(), maps):
            at.SetAtomMapNum(int(v))
        conv = RDMol2StereoMolGraph(stereo_complete=True,
                                    lone_pair_stereo=False, resonance=True,
                                    use_atom_map_number=True)
    with guard("C14/organic/from-annotations"):
        a = conv(m3)
    if maps:
        with guard("C14/organic/from-annotations/back-to-indices"):
            a = a.relabel_atoms({int(v): i for i, v in enumerate(maps)},
                                copy=True)
    with guard("C14/organic/from-coordinates"):
        b = StereoMolGraph.from_geometry(
            Geometry.from_xyz(Chem.MolToXYZBlock(m3)))
    ba = {frozenset(x) for x in a.bonds}
    bb = {frozenset(x) for x in b.bonds}
    if ba != rd_bonds or bb != rd_bonds:
        raise Violation("C14/organic/connectivity-differs",
                        f"{case['smiles']}: annotations {len(ba)} bonds, "
                        f"coordinates {len(bb)}, molecule {len(rd_bonds)}")
    # labelled comparison on the true stereo elements
    centres = [x.GetIdx() for x in m3.GetAtoms() if x.GetChiralTag() in (
        Chem.ChiralType.CHI_TETRAHEDRAL_CW,
        Chem.ChiralType.CHI_TETRAHEDRAL_CCW) and x.GetDegree() == 4]
    for c in centres:
        da, db = _desc(a.get_atom_stereo(c)), _desc(b.get_atom_stereo(c))
        if da is None or db is None or not sym.same_or_unspecified(da, db) \
                or None in (da[2], db[2]):
            raise Violation(
                "C14/organic/tetrahedral-centre-disagrees",
                f"{case['smiles']} atom {c}: annotations {da}, coordinates "
                f"{db}")
    formal_double = {
        frozenset((x.GetBeginAtomIdx(), x.GetEndAtomIdx()))
        for x in m3.GetBonds()
        if x.GetBondType() == Chem.BondType.DOUBLE and not x.GetIsAromatic()}
    labelled = {
        frozenset((x.GetBeginAtomIdx(), x.GetEndAtomIdx()))
        for x in m3.GetBonds()
        if x.GetStereo() in (Chem.BondStereo.STEREOZ, Chem.BondStereo.STEREOE)
        and x.GetBeginAtom().GetDegree() == 3
        and x.GetEndAtom().GetDegree() == 3}
    for bd in labelled:
        da, db = _desc(a.get_bond_stereo(bd)), _desc(b.get_bond_stereo(bd))
        if da is None or db is None or not sym.same_or_unspecified(da, db):
            raise Violation(
                "C14/organic/double-bond-configuration-disagrees",
                f"{case['smiles']} bond {sorted(bd)}: annotations {da}, "
                f"coordinates {db}")
    # graph equality after removing PlanarBond on non-formal-double bonds
    for g in (a, b):
        for bd in [frozenset(k) for k in g.bond_stereo]:
            if bd not in formal_double:
                g.delete_bond_stereo(bd)
    with guard("C14/organic/eq"):
        e = (a == b) and (b == a)
    if not e:
        sa, sb = snapshot(a, "C14/a", deep=False), snapshot(b, "C14/b",
                                                            deep=False)
        only_a = sorted(set(sa["bond_stereo"]) - set(sb["bond_stereo"]))
        only_b = sorted(set(sb["bond_stereo"]) - set(sa["bond_stereo"]))
        as_a = sorted(set(sa["atom_stereo"]) - set(sb["atom_stereo"]))
        as_b = sorted(set(sb["atom_stereo"]) - set(sa["atom_stereo"]))
        kind = ("descriptor-sets-differ" if (only_a or only_b or as_a or as_b)
                else "same-keys-unequal")
        raise Violation(
            f"C14/organic/graphs-unequal/{kind}",
            f"{case['smiles']}: bond descriptors only from annotations "
            f"{only_a}, only from coordinates {only_b}; atom descriptors "
            f"only from annotations {as_a}, only from coordinates {as_b}")
    return {"centres": len(centres), "ez": len(labelled)}


# ---------------------------------------------------------------------------
# part 2


def check_complex(ctx, case):
    from rdkit import Chem
    from vp import rdtable
    from vp.props.c07 import margins
    cls = case["cls"]
    k = sym.NPOS[cls] - 1
    ligs, centre, sigma = case["ligands"], case["centre"], case["sigma"]
    if len(set(ligs)) != k or sorted(sigma) != list(range(k)):
        raise HarnessError("distinct ligands / sigma permutation required")
    T = G.TEMPLATES[cls]
    coords = [None] * (k + 1)
    coords[0] = tuple(case["noise"][0])
    for v, l in enumerate(sigma):
        ln = G.RADII[centre] + G.RADII[ligs[l]]
        coords[1 + l] = G.add(G.scale(T[v], ln), tuple(case["noise"][1 + l]))
    order = case["order"]
    mol, idx_of = rdtable.placed_mol(cls, centre, ligs, sigma, coords=coords,
                                     order=order,
                                     bond_order=case["bond_order"])
    elems = [mol.GetAtomWithIdx(i).GetAtomicNum() for i in range(k + 1)]
    pos = [tuple(mol.GetConformer().GetAtomPosition(i)) for i in range(k + 1)]
    why = margins(elems, pos)
    if why:
        ctx.exclude(f"margin:{why}")
        return None
    c = idx_of[0]
    tag, lab = rdtable.assign_from_3d(mol, c)
    if rdtable.CLS_OF_TAG.get(tag) != cls or lab is None:
        ctx.exclude("rdkit-assigned-no-label")
        return None
    from stereomolgraph import StereoMolGraph
    from stereomolgraph.coords import Geometry
    with guard(f"C14/complex/{cls}/from_rdmol"):
        a = StereoMolGraph.from_rdmol(mol)
    with guard(f"C14/complex/{cls}/from_geometry"):
        b = StereoMolGraph.from_geometry(
            Geometry.from_xyz(Chem.MolToXYZBlock(mol)))
    da, db = _desc(a.get_atom_stereo(c)), _desc(b.get_atom_stereo(c))
    if da is None or db is None:
        raise Violation(f"C14/complex/{cls}/descriptor-missing",
                        f"label {lab}: annotations {da}, coordinates {db}")
    if da[0] != cls or db[0] != cls:
        raise Violation(f"C14/complex/{cls}/wrong-class", f"{da} {db}")
    if not sym.equivalent(da, db):
        rel = ("mirror-image" if not sym.ACHIRAL[cls]
               and sym.equivalent(da, sym.invert(db)) else "other-arrangement")
        raise Violation(
            f"C14/complex/{cls}/label-vs-coordinates/{rel}",
            f"RDKit label {lab} imports to {da}; the same coordinates are "
            f"perceived as {db}")
    with guard(f"C14/complex/{cls}/descriptor-eq"):
        if not (a.get_atom_stereo(c) == b.get_atom_stereo(c)):
            raise Violation(f"C14/complex/{cls}/library-eq-disagrees",
                            f"{da} vs {db}")
    return int(lab)


def check_case(ctx, case):
    if case["part"] == 1:
        return check_organic(ctx, case)
    return check_complex(ctx, case)


def run(ctx):
    def check1(case):
        res = check_organic(ctx, case)
        if res is None:
            return
        ctx.note(case, res["centres"] + res["ez"] > 0,
                 ["part:organic", f"centres:{min(res['centres'], 3)}",
                  f"ez:{min(res['ez'], 2)}"])

    ctx.hyp("c14-organic", S.mapped(700, gen1), check1,
            ctx.scale(1600, 40000), ddmin=False)

    from vp import rdtable
    tp = S.seed_tape(ctx.seed * 13 + 5)
    nvar = 2 if ctx.quick else 8
    idx = 0
    for cls in ("SquarePlanar", "TrigonalBipyramidal", "Octahedral"):
        k = sym.NPOS[cls] - 1
        centre, _ = rdtable._DEFAULT[cls]
        for var in range(nvar):
            ligs = tp.shuffle([9, 17, 35, 53, 8, 7, 16, 1])[:k]
            amp = [0.0, 0.05, 0.03, 0.08][var % 4]
            for sg in itertools.permutations(range(k)):
                idx += 1
                if idx % ctx.nshards != ctx.shard:
                    continue
                stp = S.seed_tape(ctx.seed * 1000003 + idx)
                case = {"part": 2, "cls": cls, "centre": centre,
                        "ligands": ligs, "sigma": list(sg),
                        "noise": [[(stp.below(2001) - 1000) / 1000.0 * amp
                                   for _ in range(3)] for _ in range(k + 1)],
                        "order": stp.shuffle(range(k + 1)),
                        "bond_order": stp.shuffle(range(k))}
                lab = None
                try:
                    lab = check_complex(ctx, case)
                except Exception as v:
                    ctx.fail_exc(v, case)
                if lab is not None:
                    ctx.count(1, labels=(f"complex:{cls}",), nontrivial=1,
                              sample=case if idx % 997 == 3 else None)
