"""C12 - RDKit import depends on the molecule, not on its representation."""
from __future__ import annotations

import itertools

from vp import rdgen
from vp import strategies as S
from vp.harness import HarnessError, Violation, guard
from vp.model import model_from_snapshot, snap_diff
from vp.props.c09 import diff_kind
from vp.snapshot import snapshot

ID = "C12"
LEVEL = "exploration"
QUICK_SHARDS = 4
MIN_NONTRIVIAL = 50
RULE = (
    "(0) molecule objects as the library's own exporter writes them (random "
    "skeletons with several tetrahedral / square-planar / TBP / octahedral "
    "centres, two complexes in one object, centres with unspecified "
    "arrangement = chiral tag without permutation label) renumbered with "
    "Chem.RenumberAtoms: both imports equal, equal hashes. "
    "(a) organic molecules built constructively as RWMol (C, N, O, S, "
    "halogens; chains, ring closures, ring templates incl. aromatic; double "
    "bonds) with a drawn configuration for every potential stereo element, "
    "normalised through RDKit's SMILES writer/parser, explicit hydrogens; "
    "(b) single-centre complexes X[M@SPk](..), @TBk, @OHk for every k and "
    "tetrahedral / E,Z molecules. For a drawn atom permutation pi and root "
    "atom: conv(RenumberAtoms(mol, pi)) == conv(mol) and "
    "conv(reparse(MolToSmiles(RenumberAtoms(mol, pi), canonical=False, "
    "rootedAtAtom=k))) == conv(mol), with equal hashes (pi uniformly random, "
    "or random within the classes of equal element and degree so that both "
    "molecules look alike index by index; one converter object serves all "
    "imports of a case), for the 8 "
    "combinations of stereo_complete x lone_pair_stereo x resonance; with "
    "positive injective atom-map numbers the map-number import equals the "
    "index import relabelled index->map in the model, also for "
    "MolGraph.from_rdmol. (labels) for pairwise distinct ligands the 2 / 3 / "
    "20 / 30 permutation labels of a centre (fixed neighbour order) and the "
    "E / Z forms of a double bond import to pairwise unequal graphs. "
    "Non-trivial: pi moves a stereocentre or one of its neighbours (the "
    "classifier also counts cases whose re-spelling changed the neighbour "
    "order of a stereocentre); label pairs are distinct by construction."
)
ASSUMPTIONS = [
    "trusted: RDKit SMILES parser / writer, RenumberAtoms, AddHs",
    "molecules whose stereo is not fully specified (FindPotentialStereo) "
    "are excluded and counted: the converter is documented to pick an "
    "arbitrary configuration for them",
]
TRUSTED = ["RDKit 2024.09 SMILES reader/writer", "Chem.RenumberAtoms"]

OPTS = list(itertools.product((False, True), repeat=3))


def _conv(opts, use_map=False):
    from stereomolgraph.rdmol2graph import RDMol2StereoMolGraph
    sc, lp, res = opts
    return RDMol2StereoMolGraph(stereo_complete=sc, lone_pair_stereo=lp,
                                resonance=res, use_atom_map_number=use_map)


POLYCYCLES = [
    "c1ccc2c(c1)CCCCC2", "c1ccc2c(c1)CCCCCC2", "c1ccc2c(c1)CCCC2",
    "c1ccc2c(c1)CCC2", "c1ccc2ccccc2c1", "c1ccc2cccc2cc1",
    "c1ccc2c(c1)CCc1ccccc1C2", "c1cc2CCCCCCc2[nH]1", "C1=CC2=C(C1)CCCCCC2",
    "C1=CCCC2=C1CCCCCC2", "c1ccc2c(c1)OCCCCO2", "c1ccc2c(c1)CCCCCCC2",
    "C1CCC2=C(C1)CCCCCC2", "c1ccc2c(c1)NCCCCC2", "c1cnc2c(c1)CCCCCC2",
]


def gen(data: bytes):
    tp = S.Tape(data)
    k = tp.weighted([6, 3, 1])
    if k == 2:
        smi = tp.pick(POLYCYCLES)
    elif k == 0:
        smi = rdgen.organic_smiles(tp, max_heavy=9)
        if smi is None:
            smi = "C[C@H](F)Cl"
    else:
        kind = tp.pick(["SP", "TB", "OH", "TH"])
        n = rdgen.NLIG[kind]
        pool = tp.shuffle(rdgen.LIG)
        if tp.chance(150):
            ligs = pool[:n]
        else:
            m = 1 + tp.below(3)
            ligs = [pool[tp.below(m)] for _ in range(n)]
        smi = rdgen.complex_smiles(kind, tp.pick(rdgen.CENTRE[kind]), ligs,
                                   1 + tp.below(rdgen.NLABEL[kind]))
    mol = rdgen.mol_from_smiles(smi)
    n = mol.GetNumAtoms() if mol is not None else 1
    case = {"kind": "respell", "smiles": smi, "perm": tp.shuffle(range(n)),
            "root": tp.below(n), "opts": list(tp.pick(OPTS)),
            "maps": [1 + x for x in tp.shuffle(range(n + 5))[:n]]}
    if mol is not None and tp.chance(70):
        # a renumbering that leaves (element, degree) unchanged at every
        # index: the two molecules look alike index by index, anything the
        # (reused) converter remembers about the first one fits the second
        groups = {}
        for a in mol.GetAtoms():
            groups.setdefault((a.GetSymbol(), a.GetDegree()),
                              []).append(a.GetIdx())
        perm = list(range(n))
        for idxs in groups.values():
            for i, j in zip(idxs, tp.shuffle(idxs)):
                perm[i] = j
        case["perm"] = perm
    return case


def _stereo_atoms(mol):
    from rdkit import Chem
    out = set()
    for a in mol.GetAtoms():
        if a.GetChiralTag() != Chem.ChiralType.CHI_UNSPECIFIED:
            out.add(a.GetIdx())
            out |= {n.GetIdx() for n in a.GetNeighbors()}
    for b in mol.GetBonds():
        if b.GetStereo() in (Chem.BondStereo.STEREOZ, Chem.BondStereo.STEREOE):
            for x in (b.GetBeginAtom(), b.GetEndAtom()):
                out.add(x.GetIdx())
                out |= {n.GetIdx() for n in x.GetNeighbors()}
    return out


def ambiguous_ring_double_bond(mol, max_ring=7):
    """Is there a double / aromatic bond without E/Z label for which an end
    atom has BOTH other neighbours on a cycle (size <= max_ring) through the
    bond?  Then 'the in-ring neighbour' used by the ring-cis inference of the
    converter is not unique (bridged bicycles)."""
    from rdkit import Chem
    adj = {a.GetIdx(): [n.GetIdx() for n in a.GetNeighbors()]
           for a in mol.GetAtoms()}

    def reaches(x, target, banned, depth):
        # path x -> target avoiding banned, at most depth edges
        frontier, seen = {x}, {x} | banned
        for _ in range(depth):
            nxt = set()
            for y in frontier:
                for z in adj[y]:
                    if z == target:
                        return True
                    if z not in seen:
                        seen.add(z)
                        nxt.add(z)
            frontier = nxt
        return False

    for b in mol.GetBonds():
        if not (b.GetIsAromatic()
                or b.GetBondType() == Chem.BondType.DOUBLE):
            continue
        if b.GetStereo() != Chem.BondStereo.STEREONONE:
            continue
        u, v = b.GetBeginAtomIdx(), b.GetEndAtomIdx()
        for c, o in ((u, v), (v, u)):
            others = [x for x in adj[c] if x != o]
            if len(others) == 2 and all(
                    reaches(x, o, {c}, max_ring - 2) for x in others):
                return True
    return False


def true_stereocentres_only(mol):
    """every CW/CCW tag sits on an atom RDKit regards as a stereocentre"""
    from rdkit import Chem
    real = {si.centeredOn for si in Chem.FindPotentialStereo(
        mol, cleanIt=False, flagPossible=True)
        if si.type == Chem.StereoType.Atom_Tetrahedral}
    return all(a.GetIdx() in real for a in mol.GetAtoms()
               if a.GetChiralTag() in (Chem.ChiralType.CHI_TETRAHEDRAL_CW,
                                       Chem.ChiralType.CHI_TETRAHEDRAL_CCW))


def complex_model(mol):
    """reference model of a molecule whose only stereo element is one
    SP / TB / OH centre, with the label interpreted through RDKit's own 3-D
    assignment (vp/rdtable.py); None if the molecule is not of that kind"""
    from rdkit import Chem
    from vp import rdtable
    from vp.model import Model
    centres = [a for a in mol.GetAtoms()
               if a.GetChiralTag() != Chem.ChiralType.CHI_UNSPECIFIED]
    if len(centres) != 1 or centres[0].GetChiralTag() not in \
            rdtable.CLS_OF_TAG:
        return None
    if any(b.GetStereo() != Chem.BondStereo.STEREONONE
           for b in mol.GetBonds()):
        return None
    a = centres[0]
    cls = rdtable.CLS_OF_TAG[a.GetChiralTag()]
    nbrs = [n.GetIdx() for n in a.GetNeighbors()]
    if len(nbrs) != len(rdtable._DEFAULT[cls][1]):
        return None
    m = Model("SMG")
    for x in mol.GetAtoms():
        m.add_atom(x.GetIdx(), x.GetAtomicNum())
    for b in mol.GetBonds():
        m.add_bond(b.GetBeginAtomIdx(), b.GetEndAtomIdx())
    m.set_atom_stereo(rdtable.oracle_descriptor(
        cls, a.GetUnsignedProp("_chiralPermutation"), a.GetIdx(), nbrs))
    return m


def same_molecule(m1, m2):
    """True / False for single-centre complexes (decided by brute force on
    the label meaning RDKit itself assigns from 3-D), None otherwise"""
    from vp import iso
    a, b = complex_model(m1), complex_model(m2)
    if a is None or b is None:
        return None
    try:
        return iso.exists(a, b)
    except iso.BudgetExceeded:
        return None


def labelled_conjugated_large_ring(mol, min_ring=8):
    """a conjugated double bond with an E/Z label inside a ring of >= 8
    atoms: with resonance=True the converter also describes the bonds that
    are double in the other resonance structures, which carry no label and
    sit in a ring large enough to be cis or trans"""
    from rdkit import Chem
    for b in mol.GetBonds():
        if b.GetStereo() in (Chem.BondStereo.STEREOZ,
                             Chem.BondStereo.STEREOE) \
                and b.GetIsConjugated() and b.IsInRing() \
                and not any(b.IsInRingSize(k) for k in range(3, min_ring)):
            return True
    return False


def check_respell(ctx, case):
    try:
        return _check_respell(ctx, case)
    except Violation as v:
        mol = rdgen.mol_from_smiles(case["smiles"])
        if mol is not None and ambiguous_ring_double_bond(mol):
            raise Violation(v.sig + "/ambiguous-ring-double-bond",
                            v.msg + " [a ring double bond has two candidate "
                            "in-ring neighbours at one end]")
        if mol is not None and case["opts"][2] and \
                labelled_conjugated_large_ring(mol):
            raise Violation(v.sig + "/resonance-in-large-ring",
                            v.msg + " [resonance=True, labelled conjugated "
                            "double bond in a ring of >= 8 atoms]")
        raise


def _check_respell(ctx, case):
    from rdkit import Chem
    mol = rdgen.mol_from_smiles(case["smiles"])
    if mol is None:
        raise HarnessError(f"unparsable SMILES {case['smiles']}")
    n = mol.GetNumAtoms()
    perm, root = case["perm"], case["root"]
    if sorted(perm) != list(range(n)) or not 0 <= root < n:
        raise HarnessError("perm / root do not fit the molecule")
    if not rdgen.fully_specified(mol):
        ctx.exclude("stereo-not-fully-specified")
        return None
    if not true_stereocentres_only(mol):
        ctx.exclude("chiral-tag-on-a-non-stereocentre")
        return None
    opts = tuple(case["opts"])
    tag = (f"complete={int(opts[0])},lonepair={int(opts[1])},"
           f"resonance={int(opts[2])}")
    kinds = sorted({str(a.GetChiralTag()).replace("CHI_", "")
                    for a in mol.GetAtoms()
                    if a.GetChiralTag() != Chem.ChiralType.CHI_UNSPECIFIED})
    ez = any(b.GetStereo() in (Chem.BondStereo.STEREOZ,
                               Chem.BondStereo.STEREOE)
             for b in mol.GetBonds())
    feature = ("+".join(k.split("_")[0] for k in kinds) or "none") + (
        "+EZ" if ez else "")
    conv = _conv(opts)
    with guard(f"C12/convert/{feature}"):
        g0 = conv(mol)
    ren = Chem.RenumberAtoms(mol, [int(p) for p in perm])
    with guard(f"C12/convert-renumbered/{feature}"):
        g1 = conv(ren)
    smi2 = Chem.MolToSmiles(ren, canonical=False, rootedAtAtom=int(root))
    m2 = Chem.MolFromSmiles(smi2, rdgen.smiles_params())
    if m2 is None or m2.GetNumAtoms() != n:
        ctx.exclude("rdkit-respelling-failed")
        m2 = None
    else:
        same = same_molecule(mol, m2)
        if same is None:
            # RDKit's canonical SMILES is not enough: for E/Z bonds closing a
            # ring its writer / parser pair may flip one bond while both
            # molecules still canonicalise to the same string
            # (C1=C\\CC/C=C/C=C/1); a stereo-aware atom matching both ways
            # is the second witness
            same = Chem.MolToSmiles(m2) == Chem.MolToSmiles(mol) and \
                bool(m2.GetSubstructMatch(mol, useChirality=True)) and \
                bool(mol.GetSubstructMatch(m2, useChirality=True))
        if not same:
            # RDKit's own writer / parser did not keep the molecule
            ctx.exclude("rdkit-respelling-changed-molecule")
            m2 = None
    for name, other in (("renumbered", g1),):
        with guard(f"C12/eq/{name}/{feature}"):
            e = (g0 == other) and (other == g0)
        if not e:
            raise Violation(f"C12/{name}-unequal/{feature}/{tag}",
                            f"{case['smiles']} renumbered by {perm}")
        with guard(f"C12/hash/{name}/{feature}"):
            hh = hash(g0) == hash(other)
        if not hh:
            raise Violation(f"C12/{name}-hash-differs/{feature}/{tag}",
                            f"{case['smiles']}")
    changed_order = False
    if m2 is not None:
        with guard(f"C12/convert-respelled/{feature}"):
            g2 = conv(m2)
        with guard(f"C12/eq/respelled/{feature}"):
            e = (g0 == g2) and (g2 == g0)
        if not e:
            raise Violation(f"C12/respelled-unequal/{feature}/{tag}",
                            f"{case['smiles']} vs {smi2}")
        with guard(f"C12/hash/respelled/{feature}"):
            hh = hash(g0) == hash(g2)
        if not hh:
            raise Violation(f"C12/respelled-hash-differs/{feature}/{tag}",
                            f"{case['smiles']} vs {smi2}")
        changed_order = smi2 != Chem.MolToSmiles(
            mol, canonical=False, rootedAtAtom=0)
    # ---- atom map numbers
    maps = case["maps"]
    if len(maps) == n and len(set(maps)) == n and min(maps) > 0:
        mm = Chem.Mol(mol)
        for a, v in zip(mm.GetAtoms(), maps):
            a.SetAtomMapNum(int(v))
        with guard(f"C12/convert-mapnum/{feature}"):
            gm = _conv(opts, use_map=True)(mm)
        want = model_from_snapshot(snapshot(g0, "C12/index-import")).relabel(
            {i: v for i, v in enumerate(maps)})
        d = snap_diff(snapshot(gm, "C12/mapnum-import"), want.snapshot(),
                      "exact")
        if d:
            raise Violation(f"C12/mapnum-import-differs/{diff_kind(d)}", d)
        from stereomolgraph import MolGraph
        with guard("C12/MolGraph.from_rdmol/mapnum"):
            mg = MolGraph.from_rdmol(mm, use_atom_map_number=True)
            mg0 = MolGraph.from_rdmol(mol)
        w2 = model_from_snapshot(snapshot(mg0, "C12/mg")).relabel(
            {i: v for i, v in enumerate(maps)})
        d = snap_diff(snapshot(mg, "C12/mg-map"), w2.snapshot(), "exact")
        if d:
            raise Violation(f"C12/MolGraph-mapnum-import-differs/"
                            f"{diff_kind(d)}", d)
    st = _stereo_atoms(mol)
    moved = any(perm[i] != i for i in range(n) if perm[i] in st or i in st)
    return {"nontrivial": bool(st) and moved, "feature": feature,
            "changed_order": changed_order, "tag": tag}


def label_mol(case, label):
    kind = case["cls"]
    if kind == "EZ":
        a, b, c, d = case["ligands"]
        smi = (f"{a}/C({b})=C(/{c}){d}" if label == 1
               else f"{a}/C({b})=C(\\{c}){d}")
    else:
        smi = rdgen.complex_smiles(kind, case["centre"], case["ligands"],
                                   label)
    return smi, rdgen.mol_from_smiles(smi)


def check_labels(ctx, case):
    kind = case["cls"]
    ligs = case["ligands"]
    distinct = True
    if kind == "EZ":
        if ligs[0] == ligs[1] or ligs[2] == ligs[3]:
            raise HarnessError("E/Z needs distinct substituents per end")
    elif len(set(ligs)) != len(ligs):
        if kind == "TH":
            raise HarnessError("tetrahedral: distinct ligands required")
        distinct = False
    i, j = case["labels"]
    if i == j:
        raise HarnessError("two different labels required")
    opts = tuple(case["opts"])
    conv = _conv(opts)
    si, mi = label_mol(case, i)
    sj, mj = label_mol(case, j)
    if mi is None or mj is None:
        raise HarnessError(f"unparsable {si} / {sj}")
    with guard(f"C12/labels/{kind}/convert"):
        gi, gj = conv(mi), conv(mj)
    with guard(f"C12/labels/{kind}/eq"):
        e1, e2 = (gi == gj), (gj == gi)
    if distinct:
        if e1 or e2:
            raise Violation(
                f"C12/labels/{kind}/different-labels-equal-graphs",
                f"{si} and {sj} import to equal graphs")
        return False
    want = same_molecule(mi, mj)
    if want is None:
        # repeated ligands that the brute-force arrangement oracle cannot
        # decide within its budget (or cannot model): no verdict
        ctx.exclude("label-oracle-no-verdict")
        return None
    if e1 != want or e2 != want:
        raise Violation(
            f"C12/labels/{kind}/repeated-ligands/"
            f"{'equal-but-different-arrangements' if e1 else 'unequal-but-same-arrangement'}",
            f"{si} vs {sj}: graphs equal={e1}/{e2}, arrangements equal "
            f"(RDKit 3-D label meaning + brute force)={want}")
    return want


def gen_exported(data: bytes):
    """a molecule object as the library's own exporter writes it (several
    non-tetrahedral centres, some with unspecified arrangement = chiral tag
    without permutation label), to be renumbered"""
    from vp.props import c13
    tp = S.Tape(data)
    if tp.chance(128):
        m = c13.gen_skeleton(tp)
    else:
        # two complexes in one molecule object
        m1, m2 = c13.gen_complex(tp), c13.gen_complex(tp)
        off = max(m1.atoms) + 1
        m2 = m2.relabel({a: a + off for a in m2.atoms})
        from vp.model import Model
        m = Model.compose("SMG", [m1, m2])
        if tp.chance(128):
            k = tp.pick(list(m.atom_stereo))
            d = m.atom_stereo[k]
            m.atom_stereo[k] = (d[0], d[1], None)
    n = len(m.atoms)
    return {"kind": "exported", "g": S.shuffled_recipe(tp, m),
            "perm": tp.shuffle(range(n)), "opts": list(tp.pick(OPTS))}


def check_exported(ctx, case):
    from rdkit import Chem
    from vp import recipes as rc
    m = rc.require_valid(case["g"])
    g = rc.build(case["g"])
    with guard("C12/exported/to_rdmol"):
        mol, _ = g._to_rdmol(generate_bond_orders=False)
    n = mol.GetNumAtoms()
    perm = case["perm"]
    if sorted(perm) != list(range(n)):
        raise HarnessError("perm")
    opts = tuple(case["opts"])
    if opts[2]:
        opts = (opts[0], opts[1], False)   # connectivity only: no resonance
    conv = _conv(opts)
    with guard("C12/exported/convert"):
        g0 = conv(mol)
    ren = Chem.RenumberAtoms(mol, [int(p) for p in perm])
    with guard("C12/exported/convert-renumbered"):
        g1 = conv(ren)
    with guard("C12/exported/eq"):
        e = (g0 == g1) and (g1 == g0)
    kinds = sorted({d[0][:4] + ("?" if d[2] is None else "")
                    for d in m.atom_stereo.values()})
    tag = "+".join(kinds) or "none"
    if not e:
        raise Violation(f"C12/exported-renumbered-unequal/{tag}",
                        f"exported molecule renumbered by {perm}: imports "
                        f"differ")
    with guard("C12/exported/hash"):
        if hash(g0) != hash(g1):
            raise Violation(f"C12/exported-renumbered-hash-differs/{tag}", "")
    nont = sum(1 for d in m.atom_stereo.values()
               if d[0] != "Tetrahedral") >= 2
    return {"nontrivial": nont, "tag": tag}


def check_case(ctx, case):
    if case["kind"] == "labels":
        return check_labels(ctx, case)
    if case["kind"] == "exported":
        return check_exported(ctx, case)
    return check_respell(ctx, case)


def run(ctx):
    def check(case):
        res = check_respell(ctx, case)
        if res is None:
            return
        labs = [f"feature:{res['feature']}", res["tag"]]
        if res["changed_order"]:
            labs.append("respelling-changed-atom-order")
        ctx.note(case, res["nontrivial"], labs)

    ctx.hyp("c12", S.mapped(900, gen), check, ctx.scale(2400, 60000),
            ddmin=False)

    def check_x(case):
        res = check_exported(ctx, case)
        ctx.note(case, res["nontrivial"], ["kind:exported",
                                           f"exported:{res['tag']}"])

    ctx.hyp("c12-exported", S.mapped(1200, gen_exported), check_x,
            ctx.scale(1500, 40000), ddmin=False)

    # ---- all label pairs
    tp = S.seed_tape(ctx.seed * 7 + 1)
    nvar = 1 if ctx.quick else 4
    idx = 0
    for kind in ("TH", "SP", "TB", "OH", "EZ"):
        for var in range(nvar * (1 if kind in ("TH", "EZ") else 3)):
            repeated = var % 3 != 0 and kind not in ("TH", "EZ")
            if kind == "EZ":
                pool = tp.shuffle(["F", "Cl", "Br", "I", "C", "O"])
                base = {"kind": "labels", "cls": "EZ", "centre": None,
                        "ligands": [pool[0], pool[1], pool[2], pool[3]]}
                nl = 2
            else:
                n = rdgen.NLIG[kind]
                pool = tp.shuffle(rdgen.LIG)
                if repeated:
                    # monoatomic ligands only: the arrangement oracle is a
                    # brute force over atom bijections
                    mono = [x for x in pool
                            if x in ("F", "Cl", "Br", "I", "[H]")] or pool
                    m = 2 + tp.below(2)
                    ligs = [mono[tp.below(min(m, len(mono)))]
                            for _ in range(n)]
                    if len(set(ligs)) == n:
                        ligs[1] = ligs[0]
                else:
                    ligs = pool[:n]
                base = {"kind": "labels", "cls": kind,
                        "centre": tp.pick(rdgen.CENTRE[kind]),
                        "ligands": ligs}
                nl = rdgen.NLABEL[kind]
            opts = list(tp.pick(OPTS))
            for i, j in itertools.combinations(range(1, nl + 1), 2):
                idx += 1
                if idx % ctx.nshards != ctx.shard:
                    continue
                case = {**base, "labels": [i, j], "opts": opts}
                same = None
                before = ctx.excluded.get("label-oracle-no-verdict", 0)
                try:
                    same = check_labels(ctx, case)
                except Exception as v:
                    ctx.fail_exc(v, case)
                if ctx.excluded.get("label-oracle-no-verdict", 0) > before:
                    break           # the oracle cannot decide this ligand set
                lab = f"labels:{kind}" + (":repeated" if repeated else "")
                ctx.count(1, labels=(lab,) + ((lab + ":same-arrangement",)
                                              if same else ()),
                          nontrivial=1,
                          sample=case if (i, j) == (1, 2) else None)
