"""C13 - RDKit export followed by import preserves structure and stereo."""
from __future__ import annotations

from vp import rdgen
from vp import recipes as rc
from vp import strategies as S
from vp import symmetry as sym
from vp.harness import HarnessError, Violation, guard
from vp.model import Model, model_from_snapshot, snap_diff
from vp.snapshot import snapshot

ID = "C13"
LEVEL = "exploration"
QUICK_SHARDS = 4
MIN_NONTRIVIAL = 50
RULE = (
    "Stereo-valid stereo molecule graphs with positive arbitrary atom ids "
    "from: (complex) single-centre complexes of every atom-centred class "
    "with drawn ligand orders and both parities, optionally with ligand "
    "atoms that carry tetrahedral descriptors themselves; (skeleton) random "
    "skeletons with valid Tetrahedral / SquarePlanar / TBP / Octahedral "
    "decorations incl. 3-coordinate lone-pair centres; (organic) molecules "
    "from the RDKit generator imported and renamed in the model; (ez) "
    "the organic source half of the time with regenerated bond orders and "
    "with a pool of stereogenic P(V) / S(VI) / S(IV) / N-oxide centres; "
    "organic molecules with isolated C=C, C=N and N=N bonds, also inside "
    "three-membered rings (lone-pair "
    "placeholders in every position of the PlanarBond spelling) exported "
    "with generate_bond_orders=True. Oracle: back = from_rdmol(g._to_rdmol(...), "
    "use_atom_map_number=True) (also RDMol2StereoMolGraph with the other "
    "stereo_complete / resonance combinations, lone_pair_stereo=True) has "
    "the same atom ids, elements and bonds; every atom-centred descriptor "
    "of g with specified parity reappears on the same atom as an equivalent "
    "descriptor (geometric canonical form), and every descriptor with "
    "unspecified parity as a descriptor of the same class over the same "
    "atoms; with regenerated bond orders the "
    "PlanarBond of every isolated double bond reappears equivalent; the "
    "exported graph's snapshot is unchanged. Every case is exported a second "
    "time through g.subgraph(all atoms in another order), which shares the "
    "descriptor objects with g, under the same oracle. Non-trivial: >= 1 specified "
    "atom-centred descriptor and ids != 0..n-1; distinct = SHA-1."
)
ASSUMPTIONS = [
    "atom ids are positive (RDKit atom-map number 0 means 'none') and fit "
    "RDKit's map-number range",
    "descriptors are stereo-valid: they list exactly the bonded neighbours",
]
TRUSTED = ["vp/symmetry.py", "vp/model.py"]

IMPORT_OPTS = [(True, True), (False, True), (True, False), (False, False)]


def _pos_ids(tp, n):
    out, seen = [], set()
    while len(out) < n:
        k = tp.weighted([4, 3, 2])
        v = (1 + tp.below(30) if k == 0 else 100 + tp.below(5000)
             if k == 1 else 10**6 + tp.below(10**6))
        while v in seen:
            v += 1
        seen.add(v)
        out.append(v)
    return out


def gen_complex(tp):
    cls = tp.pick(["Tetrahedral", "Tetrahedral", "SquarePlanar",
                   "TrigonalBipyramidal", "Octahedral"])
    k = sym.NPOS[cls] - 1
    lone = cls == "Tetrahedral" and tp.chance(90)
    nl = k - 1 if lone else k
    ids = _pos_ids(tp, 1 + nl + 6)
    m = Model("SMG")
    centre = ids[0]
    zc = {"Tetrahedral": [6, 14, 15, 7], "SquarePlanar": [78, 46],
          "TrigonalBipyramidal": [15, 33], "Octahedral": [26, 16, 27]}[cls]
    m.add_atom(centre, tp.pick(zc if not lone else [7, 15, 16]))
    pool = tp.shuffle([9, 17, 35, 53, 1, 8])
    distinct = tp.chance(170)
    ligs = []
    for i in range(nl):
        z = pool[i % len(pool)] if distinct else pool[tp.below(2)]
        a = ids[1 + i]
        m.add_atom(a, z)
        ligs.append(a)
    order = tp.shuffle(ligs)        # bond insertion order
    for a in order:
        m.add_bond(centre, a)
    atoms = [centre] + tp.shuffle(ligs + ([None] if lone else []))
    par = 0 if sym.ACHIRAL[cls] else tp.pick([1, -1])
    if tp.chance(40):
        par = None                  # descriptor with unspecified parity
    m.set_atom_stereo([cls, atoms, par])
    # optionally: a ligand that is itself a tetrahedral centre
    if tp.chance(70) and nl >= 1:
        x = ligs[0]
        m.atoms[x]["atom_type"] = 6
        subs = []
        for j, z in enumerate(tp.shuffle([1, 9, 17])):
            a = ids[1 + nl + j]
            m.add_atom(a, z)
            m.add_bond(x, a)
            subs.append(a)
        m.set_atom_stereo(["Tetrahedral", [x] + tp.shuffle(subs + [centre]),
                           tp.pick([1, -1])])
    return m


def gen_skeleton(tp):
    m = S.gen_model(tp, "SMG", nmax=9, nmin=2, kmax=3, p_atom=230, p_bond=0,
                    none_parity=tp.pick([0, 0, 60]))
    # a centre with two placeholders has no RDKit representation
    m.atom_stereo = {k: d for k, d in m.atom_stereo.items()
                     if list(d[1]).count(None) <= 1}
    m.bond_stereo = {}
    mp = dict(zip(m.atoms, _pos_ids(tp, len(m.atoms))))
    return m.relabel(mp)


def gen(data: bytes):
    tp = S.Tape(data)
    k = tp.weighted([4, 3, 3, 2])
    if k == 0:
        m = gen_complex(tp)
        return {"src": "complex", "g": S.shuffled_recipe(tp, m),
                "bond_orders": False}
    if k == 1:
        m = gen_skeleton(tp)
        return {"src": "skeleton", "g": S.shuffled_recipe(tp, m),
                "bond_orders": False}
    if k == 3 and tp.chance(200):
        subs = ["C", "F", "Cl", "Br", "CC", "[H]", "C(C)C", "CO", "C(F)F",
                "I", "CCl"]
        pre = {"C(C)C": "CC(C)", "CO": "OC", "C(F)F": "FC(F)", "CCl": "ClC"}
        a, b = tp.shuffle(subs)[:2]
        a = pre.get(a, a)
        c, d = tp.shuffle(subs)[:2]
        bs = chr(92)
        kind = tp.weighted([5, 2, 2, 1, 1])
        sl = "/" if tp.chance(128) else bs
        if kind == 0:
            smi = f"{a}/C({b})=C({sl}{c}){d}"
        elif kind == 1:             # imine / oxime: lone pair on one end
            c = {"[H]": "C", "CO": "O", "C(F)F": "C", "CCl": "C"}.get(c, c)
            c = c if c in ("C", "CC", "O", "F", "Cl", "C(C)C") else "C"
            smi = f"{a}/C({b})=N{sl}{c}"
        elif kind == 2:             # azo: lone pairs on both ends
            a2 = a if a in ("C", "CC", "F", "Cl") else "C"
            c = c if c in ("C", "CC", "F", "Cl", "C(C)C") else "C"
            smi = f"{a2}/N=N{sl}{c}"
        elif kind == 4:             # double bond in a three-membered ring
            r_ = a if a in ("C", "F", "Cl", "CC") else "C"
            smi = tp.pick([f"{r_}C1=NC1", f"{r_}C1=CC1", f"{r_}C1=NC1{b}",
                           f"{r_}C1=C({b})C1", "C1=NN1C"])
        else:                       # imine written from the nitrogen
            c = c if c in ("C", "CC", "C(C)C") else "C"
            a3 = a if a in ("C", "F", "Cl", "Br", "CC", "I") else "C"
            smi = f"{c}{sl}N=C(/{a3}){b}"
    elif tp.chance(50):
        # stereogenic P(V) / S(VI) / S(IV) centres
        x, y, z = tp.shuffle(["C", "F", "Cl", "CC", "OC", "N(C)C", "[H]"])[:3]
        at = tp.pick(["@", "@@"])
        smi = tp.pick([f"O=[P{at}]({x})({y}){z}", f"S=[P{at}]({x})({y}){z}",
                       f"O=[S{at}](=N)({x}){y}", f"O=[S{at}]({x}){y}",
                       f"C[S{at}](=O)(=NC){x}", f"[O-][N{at}+]({x})({y})C"])
        if "[H]" in smi and "S" in smi:
            smi = smi.replace("[H]", "C")
    else:
        smi = rdgen.organic_smiles(tp, max_heavy=8) or "C[C@H](F)Cl"
    mol = rdgen.mol_from_smiles(smi)
    n = mol.GetNumAtoms() if mol is not None else 1
    return {"src": "organic" if k == 2 else "ez", "smiles": smi,
            "ids": _pos_ids(tp, n),
            "bond_orders": k == 3 or (k == 2 and tp.chance(128)),
            "tseed": tp.below(1 << 30)}


def shrink(case):
    if "g" in case:
        for cand in rc.shrink_candidates(case["g"]):
            yield {**case, "g": cand}


def source_graph(ctx, case):
    """-> (real graph, model) or None"""
    if "g" in case:
        m = rc.require_valid(case["g"])
        if m.cls != "SMG" or any(a <= 0 for a in m.atoms):
            raise HarnessError("C13: SMG with positive ids")
        return rc.build(case["g"]), m
    from rdkit import Chem
    from vp.props.c12 import true_stereocentres_only, \
        ambiguous_ring_double_bond
    mol = rdgen.mol_from_smiles(case["smiles"])
    if mol is None:
        raise HarnessError("unparsable SMILES")
    if not rdgen.fully_specified(mol) or not true_stereocentres_only(mol) \
            or ambiguous_ring_double_bond(mol):
        ctx.exclude("organic-source-outside-domain")
        return None
    ids = case["ids"]
    if len(ids) != mol.GetNumAtoms() or len(set(ids)) != len(ids) or \
            min(ids) <= 0:
        raise HarnessError("ids")
    from stereomolgraph.rdmol2graph import RDMol2StereoMolGraph
    try:
        g0 = RDMol2StereoMolGraph(stereo_complete=True,
                                  lone_pair_stereo=True,
                                  resonance=False)(mol)
        m0 = model_from_snapshot(snapshot(g0, "C13/source", deep=False))
    except Exception:
        ctx.exclude("organic-source-import-failed")   # C12's business
        return None
    m = m0.relabel({i: v for i, v in enumerate(ids)})
    if case["src"] == "ez":
        # keep only PlanarBonds of isolated, labelled C=C double bonds
        keep = {}
        for b in mol.GetBonds():
            labelled = b.GetStereo() in (Chem.BondStereo.STEREOZ,
                                         Chem.BondStereo.STEREOE) \
                and not b.IsInRing()
            small_ring = b.GetBondType() == Chem.BondType.DOUBLE \
                and b.IsInRingSize(3)
            if (labelled or small_ring) and not b.GetIsConjugated() \
                    and b.GetBeginAtom().GetAtomicNum() in (6, 7) \
                    and b.GetEndAtom().GetAtomicNum() in (6, 7):
                k = frozenset((ids[b.GetBeginAtomIdx()],
                               ids[b.GetEndAtomIdx()]))
                if k in m.bond_stereo:
                    keep[k] = m.bond_stereo[k]
        m.bond_stereo = keep
    else:
        m.bond_stereo = {}
    # any equivalent spelling of the descriptors, any insertion order
    tp = S.seed_tape(case.get("tseed", 0))
    m, _ = S.respell_model(tp, m, improper=True)
    r = S.shuffled_recipe(tp, m)
    return rc.build(r), m


def check_case(ctx, case):
    sg = source_graph(ctx, case)
    if sg is None:
        return None
    g, m = sg
    bo = bool(case.get("bond_orders"))
    res = _check_graph(ctx, case, g, m, bo)
    # the same through a subgraph over all atoms in another order: it shares
    # the descriptor objects with g and lists the ligands differently
    tp = S.seed_tape(case.get("tseed", 0) + 17)
    order = tp.shuffle(list(m.atoms))
    with guard("C13/subgraph-of-everything"):
        sub = g.subgraph(order)
    m2 = Model(m.cls)
    for a in order:
        m2.atoms[a] = dict(m.atoms[a])
    m2.bonds = dict(m.bonds)
    m2.atom_stereo = dict(m.atom_stereo)
    m2.bond_stereo = dict(m.bond_stereo)
    _check_graph(ctx, case, sub, m2, bo, stage="second-export/")
    return res


def _check_graph(ctx, case, g, m, bo, stage=""):
    s0 = snapshot(g, "C13/source")
    kinds = sorted({d[0] for d in m.atom_stereo.values()})
    feat = "+".join(k[:4] for k in kinds) or "none"
    if any(None in d[1] for d in m.atom_stereo.values()):
        feat += "+lonepair"
    with guard(f"C13/{stage}export/bond_orders={int(bo)}"):
        rd, _ = g._to_rdmol(generate_bond_orders=bo)
    d = snap_diff(snapshot(g, "C13/source"), s0, "exact")
    if d:
        raise Violation("C13/export-modified-the-graph", d)
    from stereomolgraph import StereoMolGraph
    from stereomolgraph.rdmol2graph import RDMol2StereoMolGraph
    importers = [("from_rdmol", lambda x: StereoMolGraph.from_rdmol(
        x, use_atom_map_number=True)),
        ("from_rdmol-incomplete", lambda x: StereoMolGraph.from_rdmol(
            x, use_atom_map_number=True, stereo_complete=False))]
    for sc, res in IMPORT_OPTS:
        importers.append((
            f"complete={int(sc)},resonance={int(res)}",
            (lambda sc_, res_: (lambda x: RDMol2StereoMolGraph(
                use_atom_map_number=True, stereo_complete=sc_,
                resonance=res_, lone_pair_stereo=True)(x)))(sc, res)))
    for name, imp in importers:
        if bo is False and "resonance=1" in name or (
                bo is False and name.startswith("from_rdmol")):
            # resonance enumeration needs a sanitisable molecule; without
            # bond orders the export is connectivity only
            try:
                back = imp(rd)
            except Exception:
                ctx.exclude("resonance-import-needs-bond-orders")
                continue
        else:
            with guard("C13/import"):
                back = imp(rd)
        sb = snapshot(back, "C13/back", deep=False)
        if set(sb["atoms"]) != set(s0["atoms"]) or any(
                sb["atoms"][a].get("atom_type") != s0["atoms"][a]["atom_type"]
                for a in s0["atoms"]):
            raise Violation("C13/atoms-differ",
                            f"{sorted(sb['atoms'])} vs {sorted(s0['atoms'])}")
        if set(sb["bonds"]) != set(s0["bonds"]):
            raise Violation("C13/bonds-differ",
                            f"{sorted(set(sb['bonds']) ^ set(s0['bonds']))}")
        for c, dsc in m.atom_stereo.items():
            got = sb["atom_stereo"].get(c)
            lone = "lonepair" if None in dsc[1] else "full"
            if dsc[2] is None:
                # an unspecified descriptor equals every descriptor of its
                # class over the same atoms: that much has to come back
                if got is None or got[0] != dsc[0] or \
                        sorted(map(str, got[1])) != sorted(map(str, dsc[1])):
                    raise Violation(
                        f"C13/descriptor-lost/{dsc[0]}/{lone}/unspecified",
                        f"atom {c}: {dsc} came back as {got}")
                continue
            if got is None:
                raise Violation(
                    f"C13/{stage}descriptor-lost/{dsc[0]}/{lone}",
                    f"atom {c}: {dsc} not present after the round trip")
            if got[0] != dsc[0] or got[2] is None or \
                    not sym.equivalent(got, dsc):
                rel = ("mirror-image" if got[0] == dsc[0] and got[2]
                       is not None and not sym.ACHIRAL[dsc[0]]
                       and sym.equivalent(got, sym.invert(dsc))
                       else "other")
                raise Violation(
                    f"C13/{stage}descriptor-changed/{dsc[0]}/{lone}/{rel}",
                    f"atom {c}: exported {dsc}, re-imported {got}")
        if bo:
            for b, dsc in m.bond_stereo.items():
                got = sb["bond_stereo"].get(tuple(sorted(b)))
                if got is None or not sym.same_or_unspecified(got, dsc) \
                        or got[2] is None:
                    raise Violation(
                        "C13/double-bond-configuration-changed",
                        f"bond {sorted(b)}: exported {dsc}, re-imported "
                        f"{got}")
    nspec = sum(1 for d_ in m.atom_stereo.values() if d_[2] is not None)
    ids = list(m.atoms)
    return {"nontrivial": nspec > 0 and ids != list(range(len(ids))),
            "feat": feat, "ez": len(m.bond_stereo)}


def run(ctx):
    def check(case):
        res = check_case(ctx, case)
        if res is None:
            return
        ctx.note(case, res["nontrivial"] or (case["src"] == "ez"
                                             and res["ez"] > 0),
                 [f"src:{case['src']}", f"feature:{res['feat']}",
                  f"ez:{min(res['ez'], 2)}"])

    ctx.hyp("c13", S.mapped(1200, gen), check, ctx.scale(12000, 300000),
            shrinker=shrink)
