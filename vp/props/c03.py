"""C03 - Hash agrees with equality and is canonical across runs."""
from __future__ import annotations

import json
import os
import subprocess
import sys

from hypothesis import strategies as st

from vp import iso
from vp import recipes as rc
from vp import strategies as S
from vp.harness import HarnessError, Violation, guard, REPO_SRC, VERIF

ID = "C03"
LEVEL = "exploration"
QUICK_SHARDS = 4
MIN_NONTRIVIAL = 50
FUZZ_RUNS = 120000     # thorough tier: atheris executions (all children)
RULE = (
    "(A) fully specified recipes of the four classes and a variant that is "
    "the same graph by construction (bijective renaming, shuffled insertion "
    "order, every descriptor re-expressed by a proper element or by an "
    "improper element with flipped parity of the geometric oracle; also the "
    "library's relabel_atoms): hashes must be equal and the variant must be "
    "found in a set / dict keyed by the original; a further source reaches "
    "the graph through an editing history, in half of them with the graph "
    "hashed / compared / viewed after every edit, and compares its hash with "
    "a renamed fresh build. (B) independent pairs that "
    "the brute-force oracle declares isomorphic: hashes equal. (C) batches "
    "of non-empty recipes are rebuilt in child interpreters with other "
    "PYTHONHASHSEED values (3 per batch in quick, 12 in thorough): every "
    "child must print the parent's hash. Non-trivial: renaming moves >= 1 "
    "atom and the graph has >= 2 atoms of one element plus a descriptor, "
    "role, isolated atom or several components (A/B); every non-empty "
    "recipe (C); distinct = SHA-1 of the case."
)
ASSUMPTIONS = [
    "descriptor re-expression by vp/symmetry.py (validated by C04)",
    "child interpreters are /venv/bin/python with the same sources",
]
TRUSTED = ["vp/symmetry.py", "vp/iso.py", "subprocess + PYTHONHASHSEED"]


def gen_huge(data: bytes):
    """graphs beyond 128 atoms (index arithmetic, narrow array dtypes);
    the short drawn tape seeds a long derived one"""
    tp = S.seed_tape(int.from_bytes(data[:12], "big"), n=20000)
    cls = tp.pick(["SMG", "SCRG", "MG", "CRG", "SMG"])
    m = S.gen_model(tp, cls, nmax=190, nmin=130, none_parity=0, wide=False,
                    family=tp.pick(["tree", "sparse", "tree"]), kmax=3)
    a = S.shuffled_recipe(tp, m)
    mp = S.renaming(tp, m.atoms)
    return {"via": "build", "a": a, "mapping": [[k, v] for k, v in mp.items()],
            "tseed": tp.below(1 << 30)}


def gen(data: bytes):
    tp = S.Tape(data)
    cls = tp.pick(["MG", "SMG", "CRG", "SCRG", "SMG", "SCRG"])
    big = tp.chance(40)
    m = S.gen_model(tp, cls, nmax=30 if big else 8, nmin=1, none_parity=0,
                    wide=True,
                    family="bigstar" if tp.chance(6) else None)
    a = S.shuffled_recipe(tp, m)
    via = ("build", "relabel-copy", "relabel-inplace")[
        tp.weighted([7, 2, 1])]
    mp = S.renaming(tp, m.atoms)
    return {"via": via, "a": a, "mapping": [[k, v] for k, v in mp.items()],
            "tseed": tp.below(1 << 30)}


def _tag(r):
    f = rc.features(r)
    if "has-change" in f:
        return "stereo-change"
    if any(d[0] in ("PlanarBond", "AtropBond") for d in rc.all_descs(r)):
        return "bond-stereo"
    if rc.n_descs(r):
        return "atom-stereo"
    if "has-role" in f:
        return "roles"
    return "plain"


def derive(case):
    from vp.props.c01 import derive as d1
    if any(d[2] is None for d in rc.all_descs(case["a"])):
        raise HarnessError("C03 is stated for fully specified parities")
    return d1(case)


def shrink(case):
    from vp.props.c01 import shrink as s1
    if case.get("via") == "pair":
        from vp.props.c01 import shrink_pair
        yield from shrink_pair(case)
    else:
        yield from s1(case)


def _hash_checks(cls, via, tag, a, b):
    with guard(f"C03/{cls}/{via}/hash/{tag}"):
        ha, hb = hash(a), hash(b)
    if ha != hb:
        raise Violation(f"C03/{cls}/{via}/hash-differs/{tag}",
                        f"{ha} vs {hb}")
    with guard(f"C03/{cls}/{via}/set-membership/{tag}"):
        found = (b in {a}) and ({a: 1}.get(b) == 1)
    if not found:
        raise Violation(f"C03/{cls}/{via}/set-membership/{tag}",
                        "variant not found in a set/dict keyed by original")


def check_history(ctx, case):
    """hash of a graph reached through an editing history == hash of a
    renamed fresh build of the same labelled graph"""
    from vp import ops as O
    from vp.model import validity_error
    cls = case["cls"]
    m = O.replay_model(cls, case["ops"])
    if validity_error(m, strict=False) is not None or not m.atoms or any(
            d[2] is None for *_, d in m.all_descs()):
        return None
    g = rc.classes()[cls]()
    try:
        for op in case["ops"]:
            g = O.apply_real(g, op)
            # read-only uses between the edits: a memoised hash / component
            # list / colouring must not survive the next edit
            O.pre_use(g, case.get("observe", 0))
    except Exception:
        return None
    mp = {a: b for a, b in case["mapping"] if a in m.atoms}
    for a in m.atoms:
        mp.setdefault(a, a)
    if len(set(mp.values())) != len(mp):
        raise HarnessError("history case: mapping not injective")
    rb, _ = S.variant_from(m, list(mp.items()), case["tseed"])
    b = rc.build(rb)
    _hash_checks(cls, "history", _tag(rb), g, b)
    return m


def check_case(ctx, case):
    via = case.get("via")
    if via == "process":
        return check_process(ctx, case)
    if via == "history":
        return check_history(ctx, case)
    if via == "pair":
        ma = rc.require_valid(case["a"])
        mb = rc.require_valid(case["b"])
        if ma.cls != mb.cls or len(ma.atoms) > 20:
            raise HarnessError("pair case: same class and n <= 20")
        try:
            if not iso.exists(ma, mb):
                return False
        except iso.BudgetExceeded:
            return False
        _hash_checks(ma.cls, via, _tag(case["a"]), rc.build(case["a"]),
                     rc.build(case["b"]))
        return True
    r = case["a"]
    cls = r["cls"]
    tag = _tag(r)
    ma, rb, info, mp = derive(case)
    a = rc.build(r)
    if via == "build":
        b = rc.build(rb)
    else:
        src = rc.build(r)
        with guard(f"C03/{cls}/{via}/relabel/{tag}"):
            if via == "relabel-copy":
                b = src.relabel_atoms(mp, copy=True)
            else:
                src.relabel_atoms(mp, copy=False)
                b = src
    _hash_checks(cls, via, tag, a, b)
    # ... and as a derived object: subgraph over all atoms in another order
    order = S.seed_tape(case["tseed"] + 5).shuffle(list(ma.atoms))
    with guard(f"C03/{cls}/{via}/derived-by-subgraph/{tag}"):
        d1 = a.subgraph(order)
    _hash_checks(cls, via + "+subgraph", tag, d1, b)


# ---- process independence -------------------------------------------------

def child_hashes(recipes, hashseed):
    env = dict(os.environ)
    env["PYTHONHASHSEED"] = str(hashseed)
    env["PYTHONPATH"] = f"{REPO_SRC}:{VERIF}:{VERIF}/.deps"
    p = subprocess.run([sys.executable, "-m", "vp.hashchild"],
                       input=json.dumps(recipes), capture_output=True,
                       text=True, env=env, cwd=VERIF, timeout=600)
    if p.returncode != 0:
        raise HarnessError(f"hash child failed: {p.stderr[-2000:]}")
    return json.loads(p.stdout)


def check_process(ctx, case):
    recipes = case["recipes"]
    for r in recipes:
        rc.require_valid(r)
        if not r["atoms"]:
            raise HarnessError("process case: non-empty graphs only")
    parent = []
    for r in recipes:
        with guard(f"C03/{r['cls']}/process/hash"):
            parent.append(hash(rc.build(r)))
    for hs in case["hashseeds"]:
        got = child_hashes(recipes, hs)
        for r, h0, h1 in zip(recipes, parent, got):
            if h0 != h1:
                raise Violation(
                    f"C03/{r['cls']}/process-dependent-hash/{_tag(r)}",
                    f"parent (PYTHONHASHSEED={os.environ.get('PYTHONHASHSEED')}"
                    f") {h0}, child (PYTHONHASHSEED={hs}) {h1}",
                    case={"via": "process", "recipes": [r],
                          "hashseeds": [hs]})


def nontrivial(case, ma, info):
    if info["moved"] < 1:
        return False
    els = [at["atom_type"] for at in ma.atoms.values()]
    if len(els) == len(set(els)):
        return False
    f = rc.features(case["a"])
    if rc.n_descs(case["a"]) or "has-role" in f or "has-isolated" in f:
        return True
    return len(ma.components()) >= 2


def run(ctx):
    def check(case):
        ma, rb, info, mp = derive(case)
        labs = rc.features(case["a"]) + [f"via:{case['via']}"]
        if info["respelled"] and case["via"] == "build":
            labs.append("respelled")
        ctx.note(case, nontrivial(case, ma, info), labs)
        check_case(ctx, case)

    ctx.hyp("c03", S.mapped(900, gen), check, ctx.scale(4000, 320000),
            shrinker=shrink)
    ctx.hyp("c03-huge", S.mapped(12, gen_huge), check,
            ctx.scale(24, 640), shrinker=shrink)

    from vp.props import c02

    def gen_p(data):
        case = c02.gen_pair(S.Tape(data), sources=(6, 3, 3, 0, 0))
        case["via"] = "pair"
        return case

    def check_p(case):
        ma, mb = rc.model(case["a"]), rc.model(case["b"])
        if ma.cls != mb.cls or len(ma.atoms) > 20 or not ma.atoms:
            ctx.exclude("pair-not-comparable")
            return
        found = check_case(ctx, case)
        ctx.note(case, bool(found) and len(ma.atoms) >= 2,
                 ["via:pair", "pair-isomorphic" if found
                  else "pair-not-isomorphic"])

    ctx.hyp("c03-pairs", S.mapped(1200, gen_p), check_p,
            ctx.scale(3000, 150000), shrinker=shrink)

    from vp.props import c01

    def gen_h(data):
        tp = S.Tape(data)
        cls = tp.pick(["MG", "SMG", "CRG", "SCRG", "SCRG"])
        ops, m = S.history(tp, cls, c01.HIST_IDS, 4 + tp.below(30))
        atoms = list(m.atoms)
        pool = list(dict.fromkeys(atoms + c01.HIST_IDS + [600, 601, 602]))
        mp = dict(zip(atoms, tp.shuffle(pool)[:len(atoms)]))
        return {"via": "history", "cls": cls, "ops": ops,
                "mapping": [[a, b] for a, b in mp.items()],
                "tseed": tp.below(1 << 30),
                "observe": tp.pick([0, 0, 1, 3])}

    def check_h(case):
        m = check_history(ctx, case)
        if m is None:
            ctx.exclude("history-not-a-clean-specified-graph")
            return
        kinds = {o[0] for o in case["ops"]}
        ctx.note(case, len(m.atoms) > 1 and bool(kinds & {
            "remove_atom", "remove_bond", "relabel_inplace",
            "del_atom_change", "del_bond_change", "del_atom_stereo",
            "del_bond_stereo"}), ["via:history", f"cls:{case['cls']}"])

    ctx.hyp("c03-history", S.mapped(2500, gen_h), check_h,
            ctx.scale(1500, 100000), shrinker=c01.shrink_history)

    if getattr(ctx, "collect_only", False):
        return                         # atheris stage: generators only
    # process independence
    nseeds = 3 if ctx.quick else 12
    batch = 40 if ctx.quick else 120

    def gen_batch(data):
        top = S.Tape(data)
        recipes = []
        for _ in range(batch):
            tp = S.seed_tape(top.below(1 << 40), 900)
            m = S.gen_model(tp, None, nmax=10, nmin=1, none_parity=20,
                            wide=True)
            recipes.append(S.shuffled_recipe(tp, m))
        seeds = [0, 1, 2] + [1 + top.below(1 << 31) for _ in range(40)]
        return {"via": "process", "recipes": recipes,
                "hashseeds": seeds[:nseeds]}

    def check_b(case):
        for r in case["recipes"]:
            ctx.note(r, True, ["via:process", f"cls:{r['cls']}"])
        check_process(ctx, case)

    ctx.hyp("c03-proc", S.mapped(1200, gen_batch), check_b,
            ctx.scale(8, 32), ddmin=False)
