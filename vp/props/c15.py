"""C15 - JSON serialisation round-trips every graph losslessly."""
from __future__ import annotations

import json

from vp import recipes as rc
from vp import strategies as S
from vp.harness import Violation, guard
from vp.model import snap_diff
from vp.props.c09 import diff_kind
from vp.snapshot import snapshot

ID = "C15"
LEVEL = "exploration"
QUICK_SHARDS = 4
MIN_NONTRIVIAL = 50
FUZZ_RUNS = 160000     # thorough tier: atheris executions (all children)
RULE = (
    "Second source: graphs perceived from coordinates (templates of every "
    "class, the repository's XYZ files and reaction triples), whose parities "
    "and ids come out of numpy code. "
        "Recipes of all four classes; ids from all ranges (negative, large); "
    "all six descriptor classes, all parities incl. None; lone-pair "
    "placeholders; every non-empty subset of {broken, formed, fleeting} for "
    "atom and bond changes; formed / broken / fleeting bonds; isolated "
    "atoms; empty graph. Oracle: h = json_deserialize(json_serialize(g)) "
    "has type(h) is type(g); its snapshot equals g's on atoms, elements, "
    "bonds, bond roles, descriptors (class, atom content, parity: exact) "
    "and changes; h == g and hash(h) == hash(g); the text is valid JSON; g "
    "is unchanged. Non-trivial: the graph has a fleeting bond, a "
    "placeholder, a None parity or a change with >= 2 roles; distinct = "
    "SHA-1."
)
ASSUMPTIONS = [
    "free-form atom / bond attributes are not part of the JSON format and "
    "are not compared; elements and reaction roles are",
]
TRUSTED = ["json module", "vp/snapshot.py"]


def gen(data: bytes):
    tp = S.Tape(data)
    cls = tp.pick(["MG", "SMG", "CRG", "SCRG", "SMG", "SCRG", "SCRG"])
    m = S.gen_model(tp, cls, nmax=10, nmin=0, none_parity=50, wide=True,
                    p_role=110, p_change=170, p_atom=180, p_bond=110)
    case = {"a": S.shuffled_recipe(tp, m), "warm": tp.pick([0, 0, 1, 3])}
    if m.atoms and tp.chance(100):
        # serialise, rename in place, serialise the same object again
        case["then_relabel"] = [[a, b] for a, b in
                                S.renaming(tp, m.atoms).items()]
    return case


def shrink(case):
    for cand in rc.shrink_candidates(case["a"], strict=False):
        yield {"a": cand}
    if "then_relabel" in case or case.get("warm"):
        yield {"a": case["a"]}


def feature_labels(r):
    labs = []
    if any(b[2] == "fleeting" for b in r["bonds"]):
        labs.append("fleeting-bond")
    ds = list(rc.all_descs(r))
    if any(None in d[1] for d in ds):
        labs.append("placeholder")
    if any(d[2] is None for d in ds):
        labs.append("none-parity")
    if any(len(ch) >= 2 for ch in r["atom_changes"] + r["bond_changes"]):
        labs.append("multi-role-change")
    for ch in r["atom_changes"] + r["bond_changes"]:
        labs.append("roles:" + "+".join(sorted(ch)))
    return labs


def gen_geo(data: bytes):
    """graphs as the coordinate perception hands them out (their parities
    and ids come from numpy code)"""
    from vp.props import c07
    tp = S.Tape(data)
    if tp.chance(60):
        t = c07.gen_file(tp)
        if t["kind"] == "triple":
            return {"geo": t}
    return {"geo": c07.gen_template(tp)}


def check_geo(ctx, case):
    from vp.props import c07
    geos = c07.base_geometries(case["geo"])
    if any(ge is not None and c07.margins(*ge) for ge in geos):
        ctx.exclude("geometry-near-a-threshold")
        return None
    with guard("C15/from-coordinates/perceive"):
        g = c07.perceive(geos, "C15")
    cls = "SCRG" if len(geos) == 3 else "SMG"
    _round_trip(ctx, case, cls, g, "from-coordinates/")
    return g


def check_case(ctx, case):
    if "geo" in case:
        return check_geo(ctx, case)
    ma = rc.require_valid(case["a"], strict=False)
    cls = ma.cls
    g = rc.build(case["a"])
    from vp import ops as O
    with guard(f"C15/{cls}/read-only-use-before"):
        O.pre_use(g, case.get("warm", 0))
    _round_trip(ctx, case, cls, g)
    mp = case.get("then_relabel")
    if mp:
        mp = {a: b for a, b in mp if a in ma.atoms}
        if len(set(mp.values())) != len(mp) or (
                set(mp.values()) - set(mp)) & set(ma.atoms):
            raise HarnessError("then_relabel: not an injective renaming")
        with guard(f"C15/{cls}/relabel-in-place"):
            g.relabel_atoms(dict(mp), copy=False)
        want = ma.relabel(mp).snapshot()
        d = snap_diff(snapshot(g, f"C15/{cls}/relabelled"), want, "exact")
        if d:
            return          # C11's business, not a JSON matter
        _round_trip(ctx, case, cls, g, "second-")


def _round_trip(ctx, case, cls, g, stage=""):
    s0 = snapshot(g, f"C15/{cls}/source")
    from stereomolgraph.experimental import JSONHandler
    with guard(f"C15/{cls}/{stage}serialize"):
        text = JSONHandler.json_serialize(g)
    try:
        json.loads(text)
    except Exception as e:
        raise Violation(f"C15/{cls}/invalid-json", repr(e))
    feats = set(feature_labels(case["a"])) if "a" in case else set()
    tag = ("placeholder" if "placeholder" in feats else "plain")
    with guard(f"C15/{cls}/deserialize/{tag}"):
        h = JSONHandler.json_deserialize(text)
    if type(h) is not type(g):
        raise Violation(f"C15/{cls}/wrong-class", type(h).__name__)
    d = snap_diff(snapshot(g, f"C15/{cls}/source"), s0, "exact")
    if d:
        raise Violation(f"C15/{cls}/source-modified", d)
    sh = snapshot(h, f"C15/{cls}/deserialized")
    d = snap_diff(sh, s0, "exact", attrs=False)
    if d:
        kind = diff_kind(d)
        if kind == "bond-attributes" or d.startswith("role of bond"):
            kind = "bond-roles"
        raise Violation(f"C15/{cls}/{stage}round-trip-differs/{kind}", d)
    with guard(f"C15/{cls}/eq"):
        e = (h == g) and (g == h)
    if not e:
        raise Violation(f"C15/{cls}/not-equal-after-round-trip", "")
    with guard(f"C15/{cls}/hash"):
        hh = hash(h) == hash(g)
    if not hh:
        raise Violation(f"C15/{cls}/hash-differs-after-round-trip", "")


def run(ctx):
    def check(case):
        labs = rc.features(case["a"]) + feature_labels(case["a"])
        nt = any(x in labs for x in ("fleeting-bond", "placeholder",
                                     "none-parity", "multi-role-change"))
        ctx.note(case, nt, labs)
        check_case(ctx, case)

    ctx.hyp("c15", S.mapped(1500, gen), check, ctx.scale(8000, 300000),
            shrinker=shrink)

    def check_g(case):
        g = check_geo(ctx, case)
        if g is None:
            return
        kinds = sorted({type(d).__name__ for d in g.stereo.values()})
        ctx.note(case, bool(kinds), ["source:coordinates"]
                 + [f"perceived:{k}" for k in kinds])

    ctx.hyp("c15-geo", S.mapped(800, gen_geo), check_g,
            ctx.scale(600, 20000), ddmin=False)
