"""C18 - Bond-order perception never alters connectivity and completes
octets."""
from __future__ import annotations

from vp import rdgen
from vp import recipes as rc
from vp import strategies as S
from vp.harness import HarnessError, Violation, guard

ID = "C18"
LEVEL = "exploration"
QUICK_SHARDS = 4
MIN_NONTRIVIAL = 50
RULE = (
    "Large conjugated systems (perylene, benzo[a]pyrene: 20 unsaturated atoms "
    "in one matching problem; one atom order in the quick tier, eight in the "
    "thorough tier). "
    "(structural) random symmetric 0/1 matrices (n <= 8, density 0.1-0.9, "
    "isolated and over-valent atoms included) with element lists over the "
    "elements the routine has valence data for. Oracle: the returned matrix "
    "is integer, symmetric, >= 1 exactly where the input is 1 and 0 "
    "elsewhere; the input is not modified. (chemical) neutral closed-shell "
    "molecules over C, H, N, O, F, Cl, Br, I, S(II/VI), P(III/V) from the "
    "constructive generator and a pool of functional-group fragments "
    "(aromatic and fused aromatic rings given kekulised, cumulenes, "
    "nitriles, sulfones, sulfoxides, phosphine oxides), explicit H, x a "
    "drawn atom permutation. Oracle: every row sum equals the valence the "
    "atom has in the RDKit input, all charges 0, all unpaired counts 0, for "
    "the original and the permuted order. (export) graphs with arbitrary "
    "positive ids: the RDKit bond between the atoms mapped from a, b carries "
    "the order the routine assigned to (a, b). Non-trivial: >= 1 multiple "
    "bond and a non-identity permutation; distinct = SHA-1."
)
ASSUMPTIONS = [
    "size bounded by generated size (<= 9 heavy atoms plus ring templates), "
    "not by time: the search is exponential",
    "standard valence = the valence of the atom in the RDKit input molecule",
]
TRUSTED = ["RDKit valence bookkeeping / Kekulize"]

ELEMS = [1, 5, 6, 7, 8, 9, 14, 15, 16, 17, 32, 35, 53, 78]
FRAGMENTS = [
    "c1ccccc1", "c1ccc2ccccc2c1", "c1ccncc1", "c1ccsc1", "c1cc[nH]c1",
    "c1ccc2[nH]ccc2c1", "C=C=C", "C=C=C=C", "CC#N", "C#C", "CS(=O)(=O)C",
    "CS(=O)C", "CP(=O)(C)C", "CP(C)C", "O=C=O", "C=CC=C", "O=CC=O",
    "CC(=O)N", "c1ccoc1", "N#CC#N", "FC(F)=C(F)F", "ClC=CBr", "C1=CCC=CC1",
    "CSC", "c1ccc(cc1)C#N", "O=S(=O)(c1ccccc1)C", "C=CS(=O)(=O)C=C",
    "c1cnc2ccccc2c1", "IC#CI", "OC(=O)C=C", "NC(=N)N", "C=NO", "c1ncncn1",
    "COP(OC)OC", "CP(OC)OC", "CCP(N(C)C)OC", "C=C=CC=C=C", "O=C=CC=C=O",
    "C=CC=C=C", "C=C=CC=C", "O=C=Nc1ccccc1", "C=C=Cc1ccccc1", "CSSC",
    "CSOC", "CSN(C)C", "COS(=O)(=O)OC", "OP(=O)(O)O", "CP(=O)(OC)OC",
    "C=CP(C)C", "CSC=C", "S=C=S", "CN=C=O", "N#CC=C=C",
    # several centres that each need two or three extra bonds
    "O=C=O.O=C=O", "O=C=NCN=C=O", "O=C=NCCN=C=O", "CS(=O)(=O)CS(C)(=O)=O",
    "CS(=O)(=O)S(C)(=O)=O", "O=S(=O)=O", "C=S(=O)=O", "N=S(=O)=O",
    "C=C=CCC=C=C", "CS(=O)(=O)N=C=O", "O=C=O.C=C=C", "S=C=S.O=C=O",
    "OS(=O)(=O)O", "CS(=O)(=O)O",
]


def gen_struct(tp):
    n = 1 + tp.below(8)
    dens = tp.pick([25, 60, 110, 170, 230])
    mat = [[0] * n for _ in range(n)]
    for i in range(n):
        for j in range(i + 1, n):
            if tp.chance(dens):
                mat[i][j] = mat[j][i] = 1
    few = tp.chance(170)
    elems = [tp.pick([6, 1, 8, 7] if few else ELEMS) for _ in range(n)]
    return {"part": "structural", "elements": elems, "matrix": mat}


def gen_chem(tp):
    if tp.chance(128):
        smi = tp.pick(FRAGMENTS)
        if tp.chance(50):
            # two molecules in one connectivity matrix
            other = tp.pick(FRAGMENTS)
            # (fragments carrying the open finding are not combined: the
            # tag is per molecule and would hide the other component)
            if sum(ch.isalpha() for ch in smi + other) <= 14 and not (
                    _tagged_fragment(smi) or _tagged_fragment(other)):
                smi = smi + "." + other
    else:
        smi = rdgen.organic_smiles(tp, max_heavy=9) or "C=C"
    m = rdgen.mol_from_smiles(smi)
    n = m.GetNumAtoms() if m is not None else 1
    ids = [1 + x for x in S.draw_ids(tp, n, 2)]
    ids = [abs(i) % 100000 + 1 for i in ids]
    seen, out = set(), []
    for v in ids:
        while v in seen:
            v += 1
        seen.add(v)
        out.append(v)
    return {"part": "chemical", "smiles": smi, "perm": tp.shuffle(range(n)),
            "ids": out, "charged": tp.chance(50)}


def gen(data: bytes):
    tp = S.Tape(data)
    return gen_struct(tp) if tp.chance(90) else gen_chem(tp)


def shrink(case):
    if case["part"] != "structural":
        return
    n = len(case["elements"])
    for i in range(n - 1, -1, -1):
        mat = [[v for j, v in enumerate(r) if j != i]
               for k, r in enumerate(case["matrix"]) if k != i]
        yield {**case, "elements": case["elements"][:i]
               + case["elements"][i + 1:], "matrix": mat}
    for i in range(n):
        for j in range(i + 1, n):
            if case["matrix"][i][j]:
                mat = [list(r) for r in case["matrix"]]
                mat[i][j] = mat[j][i] = 0
                yield {**case, "matrix": mat}
    for i, z in enumerate(case["elements"]):
        if z != 6:
            e = list(case["elements"])
            e[i] = 6
            yield {**case, "elements": e}


def run_bo(elems, mat, prefix, charged=False):
    import numpy as np
    from stereomolgraph.algorithms.bond_orders import connectivity2bond_orders
    inp = np.array(mat, dtype=np.int8)
    keep = inp.copy()
    with guard(prefix):
        if charged:
            # the caller allows charged fragments; the molecule is neutral
            bo, charges, unpaired = connectivity2bond_orders(
                list(elems), inp, allow_charged_fragments=True, charge=0)
        else:
            bo, charges, unpaired = connectivity2bond_orders(list(elems), inp)
    if not (inp == keep).all():
        raise Violation(f"{prefix}/input-modified", "")
    bo = np.asarray(bo)
    n = len(elems)
    if bo.shape != (n, n):
        raise Violation(f"{prefix}/shape", f"{bo.shape}")
    if not np.issubdtype(bo.dtype, np.integer):
        if not np.allclose(bo, np.round(bo)):
            raise Violation(f"{prefix}/not-integer", f"{bo.dtype}")
    bo = np.round(bo).astype(int)
    if not (bo == bo.T).all():
        raise Violation(f"{prefix}/asymmetric", f"{bo.tolist()}")
    for i in range(n):
        for j in range(n):
            if mat[i][j] == 1 and bo[i][j] < 1:
                raise Violation(f"{prefix}/bond-lost",
                                f"({i},{j}) order {bo[i][j]}")
            if mat[i][j] == 0 and bo[i][j] != 0:
                raise Violation(f"{prefix}/bond-invented",
                                f"({i},{j}) order {bo[i][j]}")
    return bo, list(charges), list(unpaired)


def check_structural(ctx, case):
    elems, mat = case["elements"], case["matrix"]
    n = len(elems)
    if any(z not in ELEMS for z in elems) or len(mat) != n or any(
            len(r) != n or r[i] != 0 for i, r in enumerate(mat)) or any(
            mat[i][j] != mat[j][i] or mat[i][j] not in (0, 1)
            for i in range(n) for j in range(n)):
        raise HarnessError("structural case malformed")
    run_bo(elems, mat, "C18/structural")
    return any(any(r) for r in mat)


def cumulated_ring_atom(mol):
    """Two or more atoms that each carry two double bonds and are linked
    through unsaturated atoms (conjugated bis-cumulenes such as C=C=CC=C=C,
    O=C=CC=C=O, 1,2,4,5-cyclohexatetraene), or one such atom inside a ring:
    the routine starts from a maximum set of disjoint unsaturated bonds and
    extends it greedily, which cannot serve two such atoms that are an odd
    number of bonds apart."""
    from rdkit import Chem
    cum = [a for a in mol.GetAtoms() if sum(
        1 for b in a.GetBonds()
        if b.GetBondType() == Chem.BondType.DOUBLE) >= 2]
    if any(a.IsInRing() for a in cum):
        return True
    if len(cum) < 2:
        return False
    # same unsaturated component?
    unsat = {a.GetIdx() for a in mol.GetAtoms() if any(
        b.GetBondTypeAsDouble() > 1 for b in a.GetBonds())}
    for k, first in enumerate(cum[:-1]):
        start = first.GetIdx()
        seen, stack = {start}, [start]
        while stack:
            x = stack.pop()
            for n in mol.GetAtomWithIdx(x).GetNeighbors():
                if n.GetIdx() in unsat and n.GetIdx() not in seen:
                    seen.add(n.GetIdx())
                    stack.append(n.GetIdx())
        if any(a.GetIdx() in seen for a in cum[k + 1:]):
            return True
    return False


def _tagged_fragment(smi):
    from rdkit import Chem
    m = rdgen.mol_from_smiles(smi)
    if m is None:
        return True
    km = Chem.Mol(m)
    Chem.Kekulize(km, clearAromaticFlags=True)
    return cumulated_ring_atom(km)


def check_chemical(ctx, case):
    try:
        return _check_chemical(ctx, case)
    except Violation as v:
        from rdkit import Chem
        mol = rdgen.mol_from_smiles(case["smiles"])
        if mol is not None and "/chemical/" in v.sig:
            km = Chem.Mol(mol)
            Chem.Kekulize(km, clearAromaticFlags=True)
            if cumulated_ring_atom(km):
                raise Violation(v.sig + "/cyclic-cumulene", v.msg)
        raise


def _check_chemical(ctx, case):
    from rdkit import Chem
    mol = rdgen.mol_from_smiles(case["smiles"])
    if mol is None:
        raise HarnessError("unparsable SMILES")
    if any(a.GetFormalCharge() != 0 or a.GetNumRadicalElectrons() != 0
           or a.GetAtomicNum() not in (1, 6, 7, 8, 9, 17, 35, 53, 16, 15)
           for a in mol.GetAtoms()):
        ctx.exclude("charged-radical-or-foreign-element")
        return None
    km = Chem.Mol(mol)
    Chem.Kekulize(km, clearAromaticFlags=True)
    n = km.GetNumAtoms()
    elems = [a.GetAtomicNum() for a in km.GetAtoms()]
    val = [int(round(sum(b.GetBondTypeAsDouble() for b in a.GetBonds())))
           for a in km.GetAtoms()]
    std = {1: (1,), 6: (4,), 7: (3,), 8: (2,), 9: (1,), 17: (1,), 35: (1,),
           53: (1,), 16: (2, 6), 15: (3, 5)}
    if any(v not in std[z] for z, v in zip(elems, val)):
        ctx.exclude("non-standard-valence-in-input")
        return None
    mat = [[0] * n for _ in range(n)]
    for b in km.GetBonds():
        i, j = b.GetBeginAtomIdx(), b.GetEndAtomIdx()
        mat[i][j] = mat[j][i] = 1
    perm = case["perm"]
    if sorted(perm) != list(range(n)):
        raise HarnessError("perm")
    multiple = any(b.GetBondTypeAsDouble() > 1 for b in km.GetBonds())
    for name, order in (("original", list(range(n))), ("permuted", perm)):
        e2 = [elems[p] for p in order]
        m2 = [[mat[order[i]][order[j]] for j in range(n)] for i in range(n)]
        bo, charges, unpaired = run_bo(e2, m2, f"C18/chemical/{name}",
                                       charged=bool(case.get("charged")))
        for i in range(n):
            if int(bo[i].sum()) != val[order[i]]:
                raise Violation(
                    f"C18/chemical/{name}/valence-not-completed",
                    f"{case['smiles']}: atom {order[i]} (Z={e2[i]}) has "
                    f"valence {int(bo[i].sum())}, RDKit input {val[order[i]]}")
        if any(int(c) != 0 for c in charges):
            raise Violation(f"C18/chemical/{name}/charges", f"{charges}")
        if any(int(u) != 0 for u in unpaired):
            raise Violation(f"C18/chemical/{name}/unpaired-electrons",
                            f"{case['smiles']}: {unpaired}")
    # ---- export with arbitrary ids
    ids = case["ids"]
    if len(ids) == n and len(set(ids)) == n and min(ids) > 0:
        from stereomolgraph import MolGraph
        g = MolGraph()
        order = perm
        for p in order:
            g.add_atom(ids[p], elems[p])
        for b in km.GetBonds():
            g.add_bond(ids[b.GetBeginAtomIdx()], ids[b.GetEndAtomIdx()])
        atoms = list(g.atoms)
        e2 = [elems[ids.index(a)] for a in atoms]
        m2 = [[1 if g.has_bond(a, b) else 0 for b in atoms] for a in atoms]
        bo, _, _ = run_bo(e2, m2, "C18/export/reference")
        with guard("C18/export/to_rdmol"):
            rd, idx_map = g._to_rdmol(generate_bond_orders=True)
        idx_of = {v: k for k, v in idx_map.items()}
        for i, a in enumerate(atoms):
            for j, b in enumerate(atoms):
                if i < j and m2[i][j]:
                    rb = rd.GetBondBetweenAtoms(idx_of[a], idx_of[b])
                    if rb is None:
                        raise Violation("C18/export/bond-missing",
                                        f"{a}-{b}")
                    if abs(rb.GetBondTypeAsDouble() - bo[i][j]) > 1e-9:
                        raise Violation(
                            "C18/export/bond-order-on-wrong-bond",
                            f"{case['smiles']}: bond {a}-{b} exported with "
                            f"order {rb.GetBondTypeAsDouble()}, assigned "
                            f"{bo[i][j]}")
    return multiple and perm != list(range(n))


def check_case(ctx, case):
    if case["part"] == "structural":
        return check_structural(ctx, case)
    return check_chemical(ctx, case)


def run(ctx):
    def check(case):
        nt = check_case(ctx, case)
        if nt is None:
            return
        ctx.note(case, bool(nt), [f"part:{case['part']}"])

    ctx.hyp("c18", S.mapped(900, gen), check, ctx.scale(20000, 400000),
            shrinker=shrink)

    # ---- large conjugated systems (seconds each: a handful, spread over
    # the shards): >= 20 unsaturated atoms in one matching problem
    big = ["c1cc2cccc3c4cccc5cccc(c(c1)c23)c54",
           "c1ccc2c(c1)cc1ccc3cccc4ccc2c1c34"]
    if getattr(ctx, "collect_only", False):
        return
    jobs = [(big[0], 0)] if ctx.quick else [(s_, v) for s_ in big
                                            for v in range(4)]
    tp = S.seed_tape(ctx.seed * 13 + 5)
    for k, (smi, v) in enumerate(jobs):
        n = rdgen.mol_from_smiles(smi).GetNumAtoms()
        perm = tp.shuffle(range(n))
        if k % ctx.nshards != ctx.shard:
            continue
        case = {"part": "chemical", "smiles": smi, "perm": perm,
                "ids": list(range(1, n + 1))}
        ctx.run_case(lambda c: check_case(ctx, c), case)
        ctx.note(case, True, ["part:chemical", "large-conjugated-system"])
