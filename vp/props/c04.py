"""C04 - Stereodescriptor identity is spatial identity (exhaustive enumeration).

Oracle: vp.symmetry (groups derived from 3-D figures; the repository's
PERMUTATION_GROUP tables are never read).
"""
from __future__ import annotations

import itertools

from vp import symmetry as sym
from vp.harness import Violation, guard

ID = "C04"
LEVEL = "exploration"
QUICK_SHARDS = 4
THOROUGH_SHARDS = 16
MIN_NONTRIVIAL = 1000
RULE = (
    "Finite domain enumerated without repetition: for each of the six "
    "descriptor classes, ordered pairs (t, t') of orderings of the position "
    "contents x all parity pairs (incl. None vs specified) x placeholder "
    "patterns (none / one None / two None / for the bond classes one real "
    "atom in two positions) x id renamings (small, negative "
    "shuffled, large, ids with coinciding Python hashes). 5-position classes: all 120x120 pairs; 6-position: "
    "identity row x 720 plus sampled rows (all 720 rows in thorough); "
    "Octahedral: identity x 5040 plus sampled rows. Each pair checks eq vs "
    "geometric oracle, symmetry of ==, hash agreement, None-parity rule; each "
    "descriptor checks invert/invert-twice. Non-trivial = t' != t; cases are "
    "distinct by construction (enumeration), so they are counted."
)
ASSUMPTIONS = [
    "idealised figures in vp/symmetry.py follow the class docstrings "
    "(which positions are axial / trans / cis); cross-validated against the "
    "perception code by C07/C14",
    "'equal descriptors have equal hashes' is asserted for specified "
    "parities and None-vs-None, not None-vs-specified (None equals "
    "everything over its atoms)",
]
TRUSTED = ["itertools.permutations", "vp/symmetry.py figures"]


def _cls(name):
    import stereomolgraph.stereodescriptors as sd
    return getattr(sd, name)


RENAMINGS = {
    "small": lambda i: i,
    "negshuf": lambda i: (-3, 7, -1, 0, 12, -8, 5)[i],
    "large": lambda i: (2**40 + 3, 5, 2**33, 999999937, 1, 2**31, 77)[i],
    # ids whose Python hashes coincide: hash(-1) == hash(-2),
    # hash(k) == hash(k + 2**61 - 1), hash(2**61 - 1) == hash(0)
    "hashcollide": lambda i: (-1, -2, 8, 8 + 2**61 - 1, 0, 2**61 - 1, 5)[i],
}


def _contents(n, pattern, ren):
    """Position contents: n ids, with the last 0/1/2 ligand slots None."""
    f = RENAMINGS[ren]
    base = [f(i) for i in range(n)]
    if pattern == "repeat":
        # one real atom in two positions (a ligand shared by both ends of a
        # double bond in a three-membered ring)
        base[4] = base[0]
        return tuple(base)
    k = {"none": 0, "one": 1, "two": 2}[pattern]
    for j in range(k):
        base[n - 1 - j] = None
    return tuple(base)


def _parities(cls):
    return (0,) if sym.ACHIRAL[cls] else (1, -1)


def check_pair(cls, t, p, t2, p2, D=None):
    """All pair-level assertions.  Returns nothing, raises Violation."""
    C = _cls(cls)
    pat = ("2None" if t.count(None) >= 2 else
           "1None" if t.count(None) == 1 else
           "repeated-atom" if len(set(t)) < len(t) else "distinct")
    if D is None:
        with guard(f"C04/{cls}/construct"):
            d1, d2 = C(t, p), C(t2, p2)
    else:
        d1, d2 = D[(t, p)], D[(t2, p2)]
    with guard(f"C04/{cls}/eq/{pat}"):
        e12 = d1 == d2
        e21 = d2 == d1
    if e12 is not True and e12 is not False:
        raise Violation(f"C04/{cls}/eq-not-bool/{pat}", repr(e12))
    if e12 != e21:
        raise Violation(f"C04/{cls}/eq-asymmetric/{pat}",
                        f"{d1!r}=={d2!r} is {e12} but reverse is {e21}")
    if p is None or p2 is None:
        # unspecified parity equals every descriptor over the same atoms
        if not e12:
            raise Violation(f"C04/{cls}/none-parity-unequal/{pat}",
                            f"{d1!r} != {d2!r}")
        if p is None and p2 is None:
            with guard(f"C04/{cls}/hash/{pat}"):
                h1, h2 = hash(d1), hash(d2)
            if h1 != h2:
                raise Violation(f"C04/{cls}/hash-none-none/{pat}",
                                f"{d1!r} {d2!r}")
        return
    want = sym.relation(cls, t, p, t2, p2)
    if e12 != want:
        if e12:
            other = (sym.relation(cls, t, p, t2, -p2)
                     if not sym.ACHIRAL[cls] else False)
            kind = ("equal-but-mirror-image" if other
                    else "equal-but-unrelated")
        else:
            kind = ("unequal-but-proper-rotation" if p == p2
                    else "unequal-but-improper-with-opposite-parity")
        raise Violation(
            f"C04/{cls}/eq-mismatch/{kind}/{pat}",
            f"{d1!r} == {d2!r} gives {e12}, geometric oracle says {want}")
    if e12:
        with guard(f"C04/{cls}/hash/{pat}"):
            h1, h2 = hash(d1), hash(d2)
        if h1 != h2:
            raise Violation(f"C04/{cls}/hash-differs-for-equal/{pat}",
                            f"{d1!r} {d2!r}")


def check_single(cls, t, p):
    C = _cls(cls)
    pat = ("2None" if t.count(None) >= 2 else
           "1None" if t.count(None) == 1 else "distinct")
    with guard(f"C04/{cls}/invert/{pat}"):
        d = C(t, p)
        h_before = hash(d)          # a descriptor that was already hashed
        i1 = d.invert()
        i2 = i1.invert()
        same_twice = (tuple(i2.atoms) == tuple(d.atoms)
                      and i2.parity == d.parity and type(i2) is type(d))
        eq_twice = (i2 == d)
        eq_once = (i1 == d)
        refl = (d == d)
    if not refl:
        raise Violation(f"C04/{cls}/not-reflexive/{pat}", repr(d))
    if p is not None:
        with guard(f"C04/{cls}/invert-hash/{pat}"):
            fresh = C(tuple(i1.atoms), i1.parity)
            same = (fresh == i1)
            hh = hash(i1) == hash(fresh) and hash(d) == h_before \
                and hash(i2) == h_before
        if same and not hh:
            raise Violation(f"C04/{cls}/hash-differs-for-equal/after-invert/"
                            f"{pat}", f"{d!r}.invert() hashes differently "
                            f"from an equal freshly built descriptor")
    if not same_twice or not eq_twice:
        raise Violation(f"C04/{cls}/invert-twice/{pat}",
                        f"{d!r} -> {i1!r} -> {i2!r}")
    if p is None:
        return
    if sym.ACHIRAL[cls]:
        if not eq_once:
            raise Violation(f"C04/{cls}/achiral-invert-changes/{pat}",
                            f"{d!r} -> {i1!r}")
    else:
        # mirror image differs unless an improper operation maps t to itself
        want = sym.relation(cls, t, p, t, -p)
        if tuple(i1.atoms) == tuple(t) and i1.parity == -p:
            pass
        if eq_once != want:
            raise Violation(
                f"C04/{cls}/chiral-invert/{pat}",
                f"{d!r}.invert()={i1!r}; equal={eq_once}, oracle={want}")
        if i1.parity == p and tuple(i1.atoms) == tuple(t):
            raise Violation(f"C04/{cls}/invert-is-identity/{pat}", repr(d))


def check_case(ctx, case):
    cls = case["cls"]
    t = tuple(case["t"])
    if case.get("kind") == "single":
        check_single(cls, t, case["p"])
        return
    check_pair(cls, t, case["p"], tuple(case["t2"]), case["p2"])


def _rows(ctx, cls, perms):
    """Which rows (first orderings) this run enumerates against all t'."""
    n = len(perms)
    if n <= 120:
        return list(range(n))
    if cls == "Octahedral":
        k = 6 if ctx.quick else 96
    else:
        k = 24 if ctx.quick else n
    if k >= n:
        return list(range(n))
    # deterministic spread incl. identity, seeded by VERIF_SEED
    step = n // k
    off = ctx.seed % step if step > 1 else 0
    rows = sorted({0} | {(off + i * step) % n for i in range(k)})
    return rows


def run(ctx):
    total_rows_all = True
    for cls in sym.CLASSES:
        n = sym.NPOS[cls]
        idx_perms = list(itertools.permutations(range(n)))
        rows = _rows(ctx, cls, idx_perms)
        if len(rows) < len(idx_perms):
            total_rows_all = False
        pars = _parities(cls) + (None,)
        for pattern in ("none", "one", "two", "repeat"):
            if pattern == "repeat" and cls not in ("PlanarBond", "AtropBond"):
                continue
            rens = (("small", "negshuf", "large", "hashcollide")
                    if pattern == "none" else ("negshuf", "hashcollide"))
            if ctx.quick and n >= 6 and pattern != "none":
                rens = ("negshuf",)
            for ren in rens:
                base = _contents(n, pattern, ren)
                perms_t = [tuple(base[i] for i in g) for g in idx_perms]
                uniq_t2 = sorted(set(perms_t), key=sym._key)
                C = _cls(cls)
                D = {}
                try:
                    for t in uniq_t2:
                        for p in pars:
                            D[(t, p)] = C(t, p)
                except Exception as e:  # construction itself fails
                    ctx.fail_now(Violation(
                        f"C04/{cls}/construct/raises-{type(e).__name__}",
                        repr(e)), {"cls": cls, "t": list(base), "p": 1,
                                   "kind": "single"})
                    continue
                # singles (only on shard 0; cheap)
                if ctx.shard == 0:
                    for t in uniq_t2:
                        for p in pars:
                            case = {"cls": cls, "t": list(t), "p": p,
                                    "kind": "single"}
                            try:
                                check_single(cls, t, p)
                            except Exception as v:
                                ctx.fail_exc(v, case)
                        ctx.count(len(pars), labels=(f"{cls}:single",))
                row_ts = []
                seen = set()
                for r in rows:
                    t = perms_t[r]
                    if t not in seen:
                        seen.add(t)
                        row_ts.append(t)
                for ri, t in enumerate(row_ts):
                    if ri % ctx.nshards != ctx.shard:
                        continue
                    nt = 0
                    ev = 0
                    for t2 in uniq_t2:
                        for p in pars:
                            for p2 in pars:
                                ev += 1
                                if t2 != t:
                                    nt += 1
                                try:
                                    check_pair(cls, t, p, t2, p2, D)
                                except Exception as v:
                                    ctx.fail_exc(v, {
                                        "cls": cls, "t": list(t), "p": p,
                                        "t2": list(t2), "p2": p2})
                    sample = None
                    if ri == ctx.shard and ren == "negshuf":
                        sample = {"cls": cls, "t": list(t), "p": pars[0],
                                  "t2": list(uniq_t2[len(uniq_t2) // 2]),
                                  "p2": pars[-2] if len(pars) > 1 else 0}
                    ctx.count(ev, labels=(f"{cls}:{pattern}:{ren}",),
                              nontrivial=nt, sample=sample)
    ctx.extra["rows_complete_for_all_classes"] = total_rows_all
    # the identity row against every ordering is complete modulo renaming of
    # ids; 5-position classes are complete outright
    ctx.exhaustive = True
