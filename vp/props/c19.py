"""C19 - Rejected edits are atomic (fault enumeration)."""
from __future__ import annotations

from vp import ops as O
from vp import recipes as rc
from vp import strategies as S
from vp.harness import HarnessError, Violation, canonical_json
from vp.model import Model, snap_diff
from vp.props.c09 import (IDS_B, diff_kind, enumerate_ops, enumerate_queries,
                          fingerprint, rebuild)
from vp.snapshot import snapshot

ID = "C19"
LEVEL = "fault_enumeration"
QUICK_SHARDS = 4
MIN_NONTRIVIAL = 50
FUZZ_RUNS = 240000     # thorough tier: atheris executions (all children)
RULE = (
    "A state reached by a valid editing history, then ill-formed requests "
    "from a catalogue, chained (a rejected request must leave the state "
    "unchanged): unknown atom in add_bond / add_formed|broken|fleeting_bond "
    "/ remove_atom / remove_bond / set|delete_atom_attribute; unknown bond "
    "in remove_bond / set|delete_bond_attribute; add_bond(a, a); descriptor "
    "centred on an unknown atom / bond; stereo change on an unknown centre, "
    "with no descriptor at all, or with two different centres; non-element "
    "atom type in add_atom / set_atom_attribute('atom_type'); reaction label "
    "of the wrong type; delete_atom_attribute('atom_type'); plus every "
    "lookup on absent keys. Oracle: the request raises (any Exception) and "
    "the snapshot of all views is identical before and after; lookups only "
    "need the latter. (A) every catalogue entry and lookup in every state of "
    "a BFS over a tiny universe; (B) Hypothesis: random histories (<=40 "
    "steps, ~12 ids) + up to 30 generated faults. Non-trivial: state with "
    ">=2 atoms, >=1 bond (and >=1 descriptor for the stereo classes) and a "
    "request that mentions an existing atom; BFS entries are distinct by "
    "construction."
)
ASSUMPTIONS = [
    "'ill-formed' is re-established against the reference model for every "
    "(also shrunk) request",
    "any Exception subclass counts as rejection; its type is recorded",
]
TRUSTED = ["vp/model.py", "vp/snapshot.py"]


def check_fault(cls, g, m, f):
    if not O.fault_in_domain(m, f):
        raise HarnessError(f"request {f} is not ill-formed in this state")
    tag = f[-1].lstrip("#")
    before = snapshot(g, f"C19/{cls}/before-fault")
    raised = None
    try:
        O.apply_fault(g, f)
    except HarnessError:
        raise
    except Exception as e:
        raised = e
    try:
        after = snapshot(g, f"C19/{cls}/{tag}/{f[0]}/state-changed")
    except Violation as v:
        raise Violation(v.sig, f"after rejected request {f} "
                        f"(raised {type(raised).__name__}): {v.msg}")
    d = snap_diff(before, after, "exact")
    if d:
        raise Violation(
            f"C19/{cls}/{tag}/{f[0]}/state-changed/{diff_kind(d)}",
            f"request {f} (raised {type(raised).__name__}) changed a view: "
            f"{d}")
    if raised is None:
        raise Violation(f"C19/{cls}/{tag}/{f[0]}/no-exception",
                        f"ill-formed request {f} was accepted silently")
    return type(raised).__name__


def check_lookup(cls, g, m, q):
    before = snapshot(g, f"C19/{cls}/before-lookup")
    try:
        O.run_query(g, q)
    except HarnessError:
        raise
    except Exception:
        pass
    try:
        after = snapshot(g, f"C19/{cls}/lookup/{q[0]}/state-changed")
    except Violation as v:
        raise Violation(v.sig, f"after lookup {q}: {v.msg}")
    d = snap_diff(before, after, "exact")
    if d:
        raise Violation(f"C19/{cls}/lookup/{q[0]}/state-changed/"
                        f"{diff_kind(d)}", f"lookup {q} changed a view: {d}")


def replay_history(cls, ops):
    g = rc.classes()[cls]()
    m = Model(cls)
    for op in ops:
        m = O.apply_model(m, op)
        g = O.apply_real(g, op)
    return g, m


def check_case(ctx, case):
    cls = case["cls"]
    try:
        g, m = replay_history(cls, case["ops"])
    except HarnessError:
        raise
    except Exception as e:
        # a failing *valid* history is C09's business, not a rejected edit
        ctx.exclude("history-failed")
        return None
    kinds = []
    for f in case["faults"]:
        if f[0] == "q":
            if O.query_available(cls, f[1]):
                check_lookup(cls, g, m, f[1])
        else:
            kinds.append(check_fault(cls, g, m, f))
    return kinds


def gen(data: bytes):
    tp = S.Tape(data)
    cls = tp.pick(["MG", "SMG", "CRG", "SCRG"])
    m = Model(cls)
    ops = []
    for _ in range(3 + tp.below(38)):
        op = O.gen_op(tp, m, IDS_B, elements=(6, 8, 1, 7),
                      allow_copy=tp.chance(60))
        if op is None:
            continue
        m = O.apply_model(m, op)
        ops.append(op)
    faults = []
    for _ in range(1 + tp.below(30)):
        if tp.chance(60):
            faults.append(["q", O.gen_query(tp, m, IDS_B)])
        else:
            f = O.gen_fault(tp, m, IDS_B)
            if f is not None and O.fault_in_domain(m, f):
                faults.append(f)
    return {"cls": cls, "ops": ops, "faults": faults}


def nontrivial(case):
    m = O.replay_model(case["cls"], case["ops"])
    if len(m.atoms) < 2 or not m.bonds:
        return False
    if m.is_stereo and not list(m.all_descs()):
        return False

    def mentions(x):
        if isinstance(x, list):
            return any(mentions(y) for y in x)
        if isinstance(x, dict):
            return any(mentions(y) for y in x.values())
        return isinstance(x, int) and not isinstance(x, bool) and x in m.atoms

    return any(f[0] != "q" and mentions(f[1:-1]) for f in case["faults"])


def shrink(case):
    fl = case["faults"]
    for i in range(len(fl) - 1, -1, -1):
        yield {**case, "faults": fl[:i] + fl[i + 1:]}
    ops = case["ops"]
    for i in range(len(ops) - 1, -1, -1):
        yield {**case, "ops": ops[:i] + ops[i + 1:]}


def bfs(ctx, cls, depth, max_states, roots, with_empty):
    """every catalogue entry and lookup in every state reachable by valid
    histories that start with one of ``roots`` (this shard's share)"""
    seen = set()
    nf = nq = 0

    def attack(hist, m):
        nonlocal nf, nq
        for f in O.enumerate_faults(m):
            if not O.fault_in_domain(m, f):
                continue
            nf += 1
            g = rebuild(cls, hist)
            try:
                check_fault(cls, g, m, f)
            except Exception as v:
                ctx.fail_exc(v, {"cls": cls, "ops": hist, "faults": [f]})
        for q in enumerate_queries(m):
            if not O.query_available(cls, q):
                continue
            nq += 1
            g = rebuild(cls, hist)
            try:
                check_lookup(cls, g, m, q)
            except Exception as v:
                ctx.fail_exc(v, {"cls": cls, "ops": hist,
                                 "faults": [["q", q]]})

    def enter(hist, m, op):
        try:
            m2 = O.apply_model(m, op)
            g2 = rebuild(cls, hist + [op])
            key = (canonical_json(m2.snapshot()), fingerprint(g2))
        except Exception:
            return None
        if key in seen or len(seen) >= max_states:
            return None
        seen.add(key)
        attack(hist + [op], m2)
        return m2

    empty = Model(cls)
    if with_empty:
        attack([], empty)
    frontier = []
    for op in roots:
        m2 = enter([], empty, op)
        if m2 is not None:
            frontier.append(([op], m2))
    for level in range(1, depth):
        nxt = []
        for hist, m in frontier:
            for op in enumerate_ops(m):
                m2 = enter(hist, m, op)
                if m2 is not None:
                    nxt.append((hist + [op], m2))
        frontier = nxt
    return len(seen), nf, nq


def run(ctx):
    depth = 3 if ctx.quick else 5
    max_states = 1200 if ctx.quick else 15000     # per shard subtree
    jobs = [(cls, op) for cls in ("MG", "SMG", "CRG", "SCRG")
            for op in enumerate_ops(Model(cls))]
    mine = {}
    for k, (cls, op) in enumerate(jobs):
        if k % ctx.nshards == ctx.shard:
            mine.setdefault(cls, []).append(op)
    if getattr(ctx, "collect_only", False):
        mine = {}                      # atheris stage: generators only
    for cls, roots in mine.items():
        s, nf, nq = bfs(ctx, cls, depth, max_states, roots,
                        with_empty=ctx.shard == 0)
        ctx.count(nf + nq, labels=(f"bfs:{cls}",), nontrivial=nf,
                  sample={"cls": cls, "mode": "bfs", "note":
                          f"{s} states, {nf} rejected requests, {nq} lookups"})
        ctx.extra[f"bfs_states_{cls}"] = s
    ctx.extra["bfs_depth_bound"] = str(depth)

    def check(case):
        kinds = check_case(ctx, case)
        if kinds is None:
            return
        labs = [f"cls:{case['cls']}"]
        labs += [f"fault:{f[-1]}" for f in case["faults"] if f[0] != "q"]
        labs += [f"raised:{k}" for k in set(kinds)]
        ctx.note(case, nontrivial(case), labs)

    ctx.hyp("c19", S.mapped(2500, gen), check, ctx.scale(3000, 60000),
            shrinker=shrink)
