"""C02 - Equality never lies: equal graphs are structurally identical.

Oracle: brute-force search over all atom bijections on the reference models
(vp/iso.py), descriptors compared by geometric canonical form.
"""
from __future__ import annotations

from collections import Counter

from vp import iso
from vp import recipes as rc
from vp import strategies as S
from vp.harness import HarnessError, Violation, guard

ID = "C02"
LEVEL = "exploration"
QUICK_SHARDS = 4
MIN_NONTRIVIAL = 50
FUZZ_RUNS = 160000     # thorough tier: atheris executions (all children)
RULE = (
    "Ordered pairs of graphs with fully specified parities from five "
    "sources: (independent) two draws over one tiny universe (n<=6 atoms, "
    "1-2 elements); (mutant) a graph and a renamed/re-spelled single-feature "
    "mutant (element, bond added/removed/moved, role, parity, two ligands "
    "swapped, E/Z, change role, descriptor dropped, placeholder moved); "
    "(ring) 4-6-rings with two stereocentres whose ring neighbours are "
    "equivalent, cis vs trans, with ordinary ligands and with lone-pair "
    "placeholders; (big) mutants of graphs up to 30 atoms whose "
    "non-isomorphism follows from an invariant; (crossclass) identical "
    "content in two different classes. Oracle: (a==b) and (b==a) must not be "
    "True unless the brute-force search finds a bijection preserving "
    "elements, bonds, roles, descriptors (canon) and changes; cross-class "
    "pairs must be unequal. Non-trivial: the pair agrees on element "
    "multiset, bond count and degree sequence (the cheap pre-checks cannot "
    "decide it); distinct = SHA-1 of the case."
)
ASSUMPTIONS = [
    "brute-force oracle bounded to n <= 20 atoms and 300k search nodes (cut-off = no verdict, counted); larger pairs only when an "
    "invariant proves non-isomorphism",
    "only the direction 'equal => isomorphic' is asserted here (the converse "
    "is C01)",
]
TRUSTED = ["vp/iso.py", "vp/symmetry.py", "vp/model.py"]


def _fully_specified(r):
    return all(d[2] is not None for d in rc.all_descs(r))


def gen_pair(tp: S.Tape, classes=("MG", "SMG", "CRG", "SCRG", "SMG", "SCRG"),
             sources=(4, 6, 2, 2, 1, 1)):
    sources = list(sources) + [0] * (6 - len(sources))
    src = ("independent", "mutant", "ring", "big", "crossclass",
           "regular-roles")[tp.weighted(sources)]
    cls = tp.pick(list(classes))
    if src == "regular-roles":
        rcls = tp.pick([c for c in classes if c in ("CRG", "SCRG")]
                       or ["CRG"])
        m1, m2, name = S.regular_role_pair(tp, rcls)
        rb, _ = S.variant_from(m2, list(S.renaming(tp, m2.atoms).items()),
                               tp.below(1 << 30))
        ra, _ = S.variant_from(m1, list(S.renaming(tp, m1.atoms).items()),
                               tp.below(1 << 30))
        return {"src": src, "a": ra, "b": rb, "kind": name}
    if src == "independent":
        n = 1 + tp.below(6)
        alpha = S.draw_alphabet(tp, 2)
        fam = tp.pick(["gnp", "tree", "cycle", "star"])
        kw = dict(nmax=n, nmin=n, alpha=alpha, family=fam, p_atom=200,
                  p_bond=120)
        m1 = S.gen_model(tp, cls, **kw)
        m2 = S.gen_model(tp, cls, **kw)
        return {"src": src, "a": S.shuffled_recipe(tp, m1),
                "b": S.shuffled_recipe(tp, m2), "kind": None}
    if src == "ring" and tp.chance(60):
        m1, m2 = S.palindrome_pair(tp, cls)
        rb, _ = S.variant_from(m2, list(S.renaming(tp, m2.atoms).items()),
                               tp.below(1 << 30))
        return {"src": src, "a": S.shuffled_recipe(tp, m1), "b": rb,
                "kind": "palindrome"}
    if src == "ring":
        if cls not in ("SMG", "SCRG"):
            cls = "SMG"
        if tp.chance(50):
            m1, m2 = S.bis_chelate(tp, cls)
        else:
            m1, m2 = S.ring_cis_trans(tp, cls)
        if tp.chance(90):
            # ids whose hashes coincide, on two look-alike neighbours
            probe = S.Tape(bytes(tp.byte() for _ in range(12)))
            m1 = S.collide_ids(S.Tape(probe.d), m1)
            m2 = S.collide_ids(S.Tape(probe.d), m2)
        other = m2 if tp.chance(170) else m1
        rb, _ = S.variant_from(other, list(S.renaming(tp, other.atoms).items()),
                               tp.below(1 << 30))
        return {"src": src, "a": S.shuffled_recipe(tp, m1), "b": rb,
                "kind": "cis-trans" if other is m2 else "same"}
    if src == "crossclass":
        m1 = S.gen_model(tp, cls, nmax=6, nmin=1)
        if cls == "MG":
            other = tp.pick(["SMG", "CRG", "SCRG"])
        elif cls == "SMG":
            other = tp.pick(["MG", "SCRG"])
        elif cls == "CRG":
            other = tp.pick(["MG", "SCRG"])
        else:
            other = tp.pick(["SMG", "CRG"])
        m2 = m1.copy()
        m2.cls = other
        if other in ("MG", "CRG"):
            m2.atom_stereo, m2.bond_stereo = {}, {}
        if other != "SCRG":
            m2.atom_changes, m2.bond_changes = {}, {}
        if other in ("MG", "SMG"):
            for at in m2.bonds.values():
                at.pop("reaction", None)
            from vp.model import prune
            prune(m2)
        return {"src": src, "a": S.shuffled_recipe(tp, m1),
                "b": S.shuffled_recipe(tp, m2), "kind": f"{cls}-{other}"}
    big = src == "big"
    m1 = S.gen_model(tp, cls, nmax=30 if big else 8, nmin=21 if big else 2,
                     kmax=3)
    if not big and tp.chance(40):
        m1 = S.collide_ids(tp, m1)
    m2, kind = S.mutate(tp, m1)
    if m2 is None:
        m2, kind = m1.copy(), "none"
    rb, _ = S.variant_from(m2, list(S.renaming(tp, m2.atoms).items()),
                           tp.below(1 << 30))
    return {"src": "big" if len(m1.atoms) > 20 else "mutant",
            "a": S.shuffled_recipe(tp, m1), "b": rb, "kind": kind}


def gen(data: bytes):
    tp = S.Tape(data)
    case = gen_pair(tp)
    if tp.chance(128):
        case["a"], case["b"] = case["b"], case["a"]
    if tp.chance(100):
        case["sibling_use"] = True
    return case


def invariants(m):
    deg = Counter()
    for b in m.bonds:
        for x in b:
            deg[x] += 1
    return {
        "elements": sorted(at["atom_type"] for at in m.atoms.values()),
        "nbonds": len(m.bonds),
        "degrees": sorted(deg[a] for a in m.atoms),
        "roles": sorted(str(at.get("reaction")) for at in m.bonds.values()),
        "descs": sorted((k, str(r), d[0]) for k, _, r, d in m.all_descs()),
    }


def certainly_different(ma, mb):
    return invariants(ma) != invariants(mb)


def cheap_agree(ma, mb):
    ia, ib = invariants(ma), invariants(mb)
    return all(ia[k] == ib[k] for k in ("elements", "nbonds", "degrees"))


def difference_kind(ma, mb):
    if not iso.exists(ma, mb, roles=False, stereo=False, changes=False):
        ia, ib = invariants(ma), invariants(mb)
        return "elements" if ia["elements"] != ib["elements"] else "topology"
    if not iso.exists(ma, mb, roles=True, stereo=False, changes=False):
        return "bond-roles"
    if not iso.exists(ma, mb, roles=True, stereo=True, changes=False):
        ph = any(None in d[1] for *_, d in ma.all_descs())
        return "stereo-with-placeholder" if ph else "stereo"
    return "stereo-changes"


def shrink(case):
    for cand in rc.shrink_candidates(case["a"]):
        yield {**case, "a": cand}
    for cand in rc.shrink_candidates(case["b"]):
        yield {**case, "b": cand}


def load(case):
    ma = rc.require_valid(case["a"])
    mb = rc.require_valid(case["b"])
    if not (_fully_specified(case["a"]) and _fully_specified(case["b"])):
        raise HarnessError("C02 is stated for fully specified parities")
    return ma, mb


def check_case(ctx, case):
    ma, mb = load(case)
    ca, cb = ma.cls, mb.cls
    a, b = rc.build(case["a"]), rc.build(case["b"])
    if case.get("sibling_use"):
        # earlier in the same process descriptors of the OTHER classes over
        # the very same atom tuples were compared (nothing of this may
        # influence what follows)
        import stereomolgraph.stereodescriptors as sd
        fam = {5: ("Tetrahedral", "SquarePlanar"),
               6: ("TrigonalBipyramidal", "PlanarBond", "AtropBond")}
        with guard("C02/use-of-sibling-descriptor-classes"):
            import itertools
            for *_x, d in list(ma.all_descs()) + list(mb.all_descs()):
                for name_ in fam.get(len(d[1]), ()):
                    if name_ == d[0]:
                        continue
                    C_ = getattr(sd, name_)
                    p_ = 0 if name_ in ("SquarePlanar", "PlanarBond") else 1
                    head, rest = ((d[1][:1], d[1][1:]) if len(d[1]) == 5
                                  else ((), d[1]))
                    for q_ in itertools.islice(
                            itertools.permutations(rest), 120):
                        t_ = tuple(head) + q_
                        x_ = C_(t_, p_)
                        # against another spelling, so that the symmetry
                        # images are really worked out
                        x_ == C_(tuple(head) + q_[::-1], p_)   # noqa: B015
                        hash(x_)
    with guard(f"C02/{ca}-{cb}/eq"):
        e1 = (a == b)
        e2 = (b == a)
    if ca != cb:
        if e1 or e2:
            raise Violation(f"C02/crossclass/{ca}-vs-{cb}/equal",
                            f"a==b {e1}, b==a {e2}")
        return
    small = len(ma.atoms) <= 20
    if small:
        try:
            want = iso.exists(ma, mb)
        except iso.BudgetExceeded:
            small = False
    if small:
        pass
    elif certainly_different(ma, mb):
        want = False
    else:
        ctx.exclude("big-pair-undecided")
        return
    for name, e in (("a==b", e1), ("b==a", e2)):
        if e and not want:
            kind = (difference_kind(ma, mb) if small else "invariant")
            raise Violation(
                f"C02/{ca}/equal-but-not-isomorphic/{kind}",
                f"{name} is True but no structure-preserving bijection "
                f"exists (source {case.get('src')}, mutation "
                f"{case.get('kind')})")


def run(ctx):
    n = ctx.scale(8000, 400000)

    def check(case):
        ma, mb = load(case)
        nt = ma.cls == mb.cls and cheap_agree(ma, mb)
        labs = [f"src:{case['src']}", f"cls:{ma.cls}"]
        if case.get("kind"):
            labs.append(f"kind:{case['kind']}")
        if ma.cls == mb.cls and len(ma.atoms) <= 20:
            try:
                labs.append("oracle-equal" if iso.exists(ma, mb)
                            else "oracle-unequal")
                if nt:
                    labs.append(labs[-1] + "-nontrivial")
            except iso.BudgetExceeded:
                labs.append("oracle-budget-exceeded")
        ctx.note(case, nt, labs)
        check_case(ctx, case)

    ctx.hyp("c02", S.mapped(1200, gen), check, n, shrinker=shrink)
