"""C11 - Relabelling is a faithful, reversible renaming."""
from __future__ import annotations

from vp import ops as O
from vp import recipes as rc
from vp import strategies as S
from vp.harness import HarnessError, Violation, guard
from vp.model import snap_diff
from vp.props.c09 import diff_kind
from vp.snapshot import snapshot

ID = "C11"
LEVEL = "exploration"
QUICK_SHARDS = 4
MIN_NONTRIVIAL = 50
FUZZ_RUNS = 160000     # thorough tier: atheris executions (all children)
RULE = (
    "Recipe (all four classes; isolated atoms; placeholders; unspecified "
    "parity; attributes; roles; changes) x injective mapping (total or "
    "partial; swaps / cycles among existing ids; fresh targets from all id "
    "ranges) x {copy, in place} x a follow-up list of 1-8 generated edits "
    "and queries. Oracle: snapshot(g.relabel_atoms(m)) == "
    "model(g).relabel(m) with exact atom content everywhere (placeholders "
    "stay placeholders, unmapped atoms untouched); source untouched by the "
    "copy variant; in-place receiver == copy result and a returned object "
    "equals the receiver; relabel by the inverse mapping restores the "
    "original; every follow-up step gives the same snapshot and the same "
    "raise / no-raise outcome on the relabelled graph (both variants) as on "
    "a graph freshly built from the relabelled model; == and hash agree "
    "with the fresh build. Non-trivial: partial mapping, isolated atom or "
    "stereo change present, and a follow-up mutation touches a renamed "
    "atom; distinct = SHA-1."
)
ASSUMPTIONS = [
    "mappings are injective on the atom set after substituting unmapped "
    "atoms by themselves and only mention existing atoms as keys",
]
TRUSTED = ["vp/model.py relabel", "vp/snapshot.py", "vp/ops.py"]

IDS = [0, 1, 2, 3, 5, 8, -1, -4, 17, 40, 2**33, 2**40 + 1, 600, 601, 602]


def gen_mapping(tp, atoms):
    atoms = list(atoms)
    if not atoms:
        return []
    kind = tp.weighted([6, 6, 6, 2, 1])
    if kind == 4:                       # nothing to rename at all
        return []
    if kind == 0:                       # total, fresh / permuting
        return [[a, b] for a, b in S.renaming(tp, atoms).items()]
    k = 1 + tp.below(len(atoms))
    src = tp.shuffle(atoms)[:k]
    if kind == 1 and k >= 2:            # cycle among a subset
        dst = src[1:] + src[:1]
    elif kind == 3:                     # identity on a subset
        dst = list(src)
    else:                               # fresh targets for a subset
        pool = [i for i in IDS + [7000 + i for i in range(k)]
                if i not in atoms]
        dst = tp.shuffle(pool)[:k]
    return [[a, b] for a, b in zip(src, dst)]


def gen(data: bytes):
    tp = S.Tape(data)
    cls = tp.pick(["MG", "SMG", "CRG", "SCRG", "SMG", "SCRG"])
    fam = tp.pick([None, None, "sparse", "union"])
    m = S.gen_model(tp, cls, nmax=8, nmin=1, none_parity=25, attrs=True,
                    family=fam)
    return {"a": S.shuffled_recipe(tp, m),
            "mapping": gen_mapping(tp, m.atoms),
            "nfollow": 1 + tp.below(8), "tseed": tp.below(1 << 30),
            "warm": tp.pick([0, 0, 1, 2, 3])}


def shrink(case):
    for cand in rc.shrink_candidates(case["a"], strict=False):
        atoms = {a[0] for a in cand["atoms"]}
        yield {**case, "a": cand,
               "mapping": [p for p in case["mapping"] if p[0] in atoms]}
    mp = case["mapping"]
    for i in range(len(mp)):
        yield {**case, "mapping": mp[:i] + mp[i + 1:]}
    if case["nfollow"] > 0:
        yield {**case, "nfollow": case["nfollow"] - 1}


def followups(mrel, n, tseed):
    tp = S.seed_tape(tseed)
    m = mrel
    out = []
    ids = sorted(set(mrel.atoms)) + [9001, 9002, 9003]
    for _ in range(n):
        if tp.chance(80):
            out.append(["q", O.gen_query(tp, m, ids)])
            continue
        op = O.gen_op(tp, m, ids, elements=(6, 8, 7), allow_copy=False)
        if op is None or op[0] == "relabel_copy":
            continue
        m = O.apply_model(m, op)
        out.append(op)
    return out


def _same(stage, cls, snap, want, what):
    d = snap_diff(snap, want, "exact")
    if d:
        raise Violation(f"C11/{cls}/{stage}/{diff_kind(d)}",
                        f"{what}: {d}")


def check_case(ctx, case):
    ma = rc.require_valid(case["a"], strict=False)
    cls = ma.cls
    mp = {a: b for a, b in case["mapping"]}
    if not set(mp) <= set(ma.atoms) or len(mp) != len(case["mapping"]):
        raise HarnessError("mapping keys must be atoms")
    if len({mp.get(a, a) for a in ma.atoms}) != len(ma.atoms):
        raise HarnessError("mapping not injective on the atom set")
    mrel = ma.relabel(mp)
    want = mrel.snapshot()
    g = rc.build(case["a"])
    from vp import ops as O
    with guard(f"C11/{cls}/read-only-use-before"):
        O.pre_use(g, case.get("warm", 0))
    s0 = snapshot(g, f"C11/{cls}/source")
    # --- copy variant
    with guard(f"C11/{cls}/copy/relabel"):
        c = g.relabel_atoms(dict(mp), copy=True)
    if c is g:
        raise Violation(f"C11/{cls}/copy/returns-receiver", "")
    _same("copy/diverges", cls, snapshot(c, f"C11/{cls}/copy"), want,
          f"relabel_atoms({mp}, copy=True)")
    _same("copy/source-modified", cls, snapshot(g, f"C11/{cls}/source"), s0,
          "source after relabel_atoms(copy=True)")
    # --- in place
    g2 = rc.build(case["a"])
    with guard(f"C11/{cls}/read-only-use-before"):
        O.pre_use(g2, case.get("warm", 0))
    with guard(f"C11/{cls}/inplace/relabel"):
        ret = g2.relabel_atoms(dict(mp), copy=False)
    _same("inplace/diverges", cls, snapshot(g2, f"C11/{cls}/inplace"), want,
          f"receiver after relabel_atoms({mp}, copy=False)")
    if ret is not None:
        _same("inplace/returned-object-differs", cls,
              snapshot(ret, f"C11/{cls}/inplace-returned"), want,
              "object returned by relabel_atoms(copy=False)")
    # --- inverse
    inv = {b: a for a, b in mp.items()}
    with guard(f"C11/{cls}/inverse/relabel"):
        back = c.relabel_atoms(inv, copy=True)
    _same("inverse/not-restored", cls, snapshot(back, f"C11/{cls}/inverse"),
          ma.snapshot(), f"relabel by {mp} then by {inv}")
    # --- usable like a freshly built graph
    fresh_recipe = rc.from_model(mrel)
    fully = all(d[2] is not None for d in rc.all_descs(fresh_recipe))
    ops = followups(mrel, case["nfollow"], case["tseed"])
    variants = {"copy": c, "inplace": g2}
    for vname, gv in variants.items():
        fresh = rc.build(fresh_recipe)
        with guard(f"C11/{cls}/{vname}/eq-with-fresh-build"):
            e = (gv == fresh) and (fresh == gv)
        if not e:
            raise Violation(f"C11/{cls}/{vname}/not-equal-to-fresh-build",
                            "relabelled graph != graph built from scratch")
        if fully and ma.atoms:
            with guard(f"C11/{cls}/{vname}/hash"):
                hh = hash(gv) == hash(fresh)
            if not hh:
                raise Violation(f"C11/{cls}/{vname}/hash-differs-from-fresh",
                                "")
        m = mrel
        for op in ops:
            outcomes = []
            for name, obj in (("relabelled", gv), ("fresh", fresh)):
                try:
                    if op[0] == "q":
                        if O.query_available(cls, op[1]):
                            O.run_query(obj, op[1])
                        res = obj
                    else:
                        res = O.apply_real(obj, op)
                    outcomes.append(("ok", res))
                except HarnessError:
                    raise
                except Exception as e:
                    outcomes.append((f"raises-{type(e).__name__}", obj))
            (o1, r1), (o2, r2) = outcomes
            if o1 != o2:
                raise Violation(
                    f"C11/{cls}/{vname}/followup-{op[0] if op[0] != 'q' else 'query-' + op[1][0]}/outcome-differs",
                    f"{op}: relabelled graph {o1}, fresh build {o2}")
            if op[0] != "q":
                m = O.apply_model(m, op)
            if o1 == "ok":
                gv, fresh = r1, r2
                try:
                    sa = snapshot(gv, f"C11/{cls}/{vname}/followup-{op[0]}")
                except Violation as v:
                    raise Violation(v.sig, f"after {op}: {v.msg}")
                sb = snapshot(fresh, "C11/fresh")
                d = snap_diff(sa, sb, "exact")
                if d:
                    raise Violation(
                        f"C11/{cls}/{vname}/followup-{op[0]}/"
                        f"{diff_kind(d)}",
                        f"after {op}: relabelled vs fresh build: {d}")
    return mp, ops


def nontrivial(case, ma, mp, ops):
    partial = set(mp) != set(ma.atoms)
    f = rc.features(case["a"])
    special = partial or "has-isolated" in f or "has-change" in f
    renamed = {b for a, b in mp.items() if a != b}

    def touches(op):
        def walk(x):
            if isinstance(x, list):
                return any(walk(y) for y in x)
            if isinstance(x, dict):
                return any(walk(y) for y in x.values())
            return isinstance(x, int) and x in renamed
        return op[0] != "q" and walk(op[1:])

    return special and any(touches(op) for op in ops)


def run(ctx):
    def check(case):
        ma = rc.model(case["a"])
        mp, ops = check_case(ctx, case)
        labs = rc.features(case["a"])
        labs.append("mapping:partial" if set(mp) != set(ma.atoms)
                    else "mapping:total")
        labs += [f"follow:{o[0]}" for o in ops]
        ctx.note(case, nontrivial(case, ma, mp, ops), labs)

    ctx.hyp("c11", S.mapped(1500, gen), check, ctx.scale(5000, 200000),
            shrinker=shrink)
