"""C09 - Any editing history leaves a coherent graph.

Explorer A: bounded breadth-first exploration over a tiny universe, every
transition executed on a fresh real object.  Explorer B: long random
histories from a Hypothesis byte tape.  Both share ``step``.
"""
from __future__ import annotations

import json

from vp import ops as O
from vp import recipes as rc
from vp import strategies as S
from vp.harness import HarnessError, Violation, guard, canonical_json
from vp.model import Model, ROLES, fs, snap_diff
from vp.snapshot import snapshot

ID = "C09"
LEVEL = "model_checking"
QUICK_SHARDS = 4
MIN_NONTRIVIAL = 50
FUZZ_RUNS = 240000     # thorough tier: atheris executions (all children)
RULE = (
    "Large graphs: connected graphs with 128-420 atoms (random tree plus "
    "extra bonds, shuffled ids) built through the public operations, all "
    "views compared with the model, then three more random edits. "
    "Histories of public editing operations (add/remove atom and bond incl. "
    "formed/broken/fleeting, set/delete atom and bond attributes incl. "
    "atom_type and reaction, set/delete descriptors, set/delete stereo "
    "changes whole or per role, in-place relabel with total/partial "
    "injective maps, replace by relabel copy / copy() / copy-constructor) "
    "interleaved with read-only queries on present and absent keys. After "
    "every step the snapshot of all public views of the real graph must "
    "equal the reference model's and be internally coherent; a query must "
    "leave the snapshot identical whether it returns or raises. (A) BFS "
    "over ids {0,1,2}+7, elements {C,O}: every op instance in every state "
    "to a depth bound, states merged on (model snapshot, hidden container "
    "fingerprint). (B) Hypothesis sequences up to 60 steps over ~12 ids of "
    "all ranges, for each class. Non-trivial (B): history with a removal or "
    "in-place relabel followed by a further mutation and a query on an "
    "absent key; (A): every transition (distinct by construction)."
)
ASSUMPTIONS = [
    "operations are generated inside their documented preconditions (new "
    "atom ids, bonds between two distinct existing atoms that are not yet "
    "bonded, descriptors over existing atoms, injective relabel mappings)",
    "empty neighbour sets / empty change dictionaries are not views "
    "(DESIGN 2.5 rule 1)",
    "export (_to_rdmol) may refuse odd graphs; it must not mutate",
]
TRUSTED = ["vp/model.py", "vp/snapshot.py"]

IDS_B = [0, 1, 2, 3, 5, 8, -1, -4, 17, 40, 2**33, 2**40 + 1]


def diff_kind(d: str) -> str:
    for pre, k in (("class", "class"), ("atom sets", "atoms"),
                   ("attributes of atom", "atom-attributes"),
                   ("bond sets", "bonds"),
                   ("attributes of bond", "bond-attributes"),
                   ("atom_stereo", "atom_stereo"),
                   ("bond_stereo", "bond_stereo"),
                   ("atom_changes", "atom_changes"),
                   ("bond_changes", "bond_changes")):
        if d.startswith(pre):
            return k
    return "other"


def step(cls, g, m, op, pos="", pool=None):
    """Apply one history element to the real graph and the model; check the
    invariant.  -> (g', m')"""
    if op[0] == "q":
        q = op[1]
        if not O.query_available(cls, q):
            raise HarnessError(f"query {q} not available for {cls}")
        before = snapshot(g, f"C09/{cls}/before-query")
        raised = None
        try:
            O.run_query(g, q)
        except HarnessError:
            raise
        except Exception as e:  # allowed for odd / absent lookups
            raised = e
        try:
            after = snapshot(g, f"C09/{cls}/query-{q[0]}-mutates")
        except Violation as v:
            raise Violation(v.sig, f"after read-only query {q}: {v.msg}")
        d = snap_diff(before, after, "exact")
        if d:
            raise Violation(f"C09/{cls}/query-{q[0]}-mutates/{diff_kind(d)}",
                            f"read-only query {q} changed a view: {d}")
        if raised is not None and O.query_must_not_raise(m, q):
            raise Violation(
                f"C09/{cls}/query-{q[0]}-raises-{type(raised).__name__}",
                f"{q}: {raised!r}")
        return g, m
    m2 = O.apply_model(m, op)
    with guard(f"C09/{cls}/{op[0]}"):
        g2 = O.apply_real(g, op, pool)
    if op[0] == "relabel_inplace":
        g2 = g
    try:
        s = snapshot(g2, f"C09/{cls}/after-{op[0]}")
    except Violation as v:
        raise Violation(v.sig, f"after {op}: {v.msg}")
    d = snap_diff(s, m2.snapshot(), "exact")
    if d:
        raise Violation(f"C09/{cls}/after-{op[0]}/diverges-{diff_kind(d)}",
                        f"after {op}: real vs model: {d}")
    return g2, m2


def check_case(ctx, case):
    cls = case["cls"]
    if case.get("mode") == "bfs":
        return bfs_replay(ctx, case)
    if case.get("mode") == "scale":
        return check_scale(ctx, case)
    g = rc.classes()[cls]()
    m = Model(cls)
    # equal descriptors of one history are one shared object if the case
    # says so (a caller may pass the same instance any number of times)
    pool = {} if case.get("alias") else None
    for i, op in enumerate(case["ops"]):
        g, m = step(cls, g, m, op, i, pool)


def scale_ops(cls, n, seed):
    """a connected graph with n atoms (random tree + n//10 extra bonds,
    ids shuffled), as a list of operations"""
    tp = S.seed_tape(seed)
    ids = tp.shuffle(range(3, 3 + 2 * n))[:n]
    ops = [["add_atom", a, tp.pick([6, 1, 8, 7]), {}] for a in ids]
    have = set()
    for i in range(1, n):
        j = tp.below(i) if tp.chance(60) else i - 1
        have.add(frozenset((ids[i], ids[j])))
        ops.append(["add_bond", ids[i], ids[j], None, {}])
    for _ in range(n // 10):
        a, b = ids[tp.below(n)], ids[tp.below(n)]
        if a != b and frozenset((a, b)) not in have:
            have.add(frozenset((a, b)))
            ops.append(["add_bond", a, b, None, {}])
    return ops, ids


def check_scale(ctx, case):
    """large graphs: the views have to stay coherent beyond the sizes the
    histories reach (index arithmetic, array dtypes)"""
    cls, n = case["cls"], case["n"]
    ops, ids = scale_ops(cls, n, case["seed"])
    g = rc.classes()[cls]()
    m = Model(cls)
    for op in ops:
        m = O.apply_model(m, op)
        with guard(f"C09/{cls}/scale/{op[0]}"):
            g = O.apply_real(g, op)
    try:
        sn = snapshot(g, f"C09/{cls}/scale")
    except Violation as v:
        raise Violation(v.sig, f"{n}-atom graph: {v.msg[:300]}")
    d = snap_diff(sn, m.snapshot(), "exact")
    if d:
        raise Violation(f"C09/{cls}/scale/diverges-{diff_kind(d)}",
                        f"{n}-atom graph: {d[:300]}")
    tp = S.seed_tape(case["seed"] + 1)
    for k in range(case.get("tail", 0)):
        op = O.gen_op(tp, m, ids[:6] + [1, 2], elements=(6, 8, 1, 7),
                      allow_copy=False)
        if op is None or op[0].startswith("relabel"):
            continue
        g, m = step(cls, g, m, op, k)


def gen(data: bytes):
    tp = S.Tape(data)
    cls = tp.pick(["MG", "SMG", "CRG", "SCRG"])
    nsteps = 5 + tp.below(56)
    m = Model(cls)
    ops = []
    for _ in range(nsteps):
        if tp.chance(70) and ops:
            ops.append(["q", O.gen_query(tp, m, IDS_B)])
            continue
        op = O.gen_op(tp, m, IDS_B, elements=(6, 8, 1, 7))
        if op is None:
            continue
        m = O.apply_model(m, op)
        ops.append(op)
    case = {"cls": cls, "ops": ops}
    if tp.chance(90):
        case["alias"] = True
    return case


def nontrivial(case):
    ops = case["ops"]
    for i, op in enumerate(ops):
        if op[0] in ("remove_atom", "remove_bond", "relabel_inplace"):
            rest = ops[i + 1:]
            if any(o[0] != "q" for o in rest) and any(
                    o[0] == "q" for o in rest):
                return True
    return False


def shrink(case):
    ops = case["ops"]
    for i in range(len(ops) - 1, -1, -1):
        yield {**case, "ops": ops[:i] + ops[i + 1:]}


# ---------------------------------------------------------------------------
# Explorer A: breadth first

U_IDS = [0, 1, 2]
U_ALL = [0, 1, 2, 7]


def enumerate_ops(m: Model):
    """all op instances over the tiny universe that are valid in state m"""
    A = list(m.atoms)
    out = []
    n = len(A)
    if n >= 2 and sorted(A) == list(range(n)):
        free = [(i, j) for i in range(n) for j in range(i + 1, n)
                if frozenset((i, j)) not in m.bonds]
        if free:
            for tri in ("upper", "lower"):
                mat = [[0] * n for _ in range(n)]
                for i, j in free:
                    if tri == "upper":
                        mat[i][j] = 1
                    else:
                        mat[j][i] = 1
                out.append(["bonds_from_matrix", mat, tri == "lower"])
    for a in U_IDS:
        if a not in m.atoms:
            out.append(["add_atom", a, 6, {}])
            out.append(["add_atom", a, 8, {"k": 1}])
    for a in A:
        out.append(["remove_atom", a])
        out.append(["set_atom_attr", a, "k", 2])
        if "k" in m.atoms[a]:
            out.append(["del_atom_attr", a, "k"])
    for i, a in enumerate(A):
        for b in A[i + 1:]:
            if fs(a, b) in m.bonds:
                out.append(["remove_bond", a, b])
                out.append(["set_bond_attr", a, b, "k", 1])
                if "k" in m.bonds[fs(a, b)]:
                    out.append(["del_bond_attr", a, b, "k"])
                if m.is_reaction:
                    out.append(["set_bond_attr", a, b, "reaction", "formed"])
            else:
                out.append(["add_bond", a, b, None, {}])
                if m.is_reaction:
                    out.append(["add_bond", a, b, "broken", {}])
                    out.append(["add_bond", a, b, "fleeting", {"k": 1}])
    if m.is_stereo:
        for a in A:
            nb = sorted(m.neighbours(a))[:4]
            lig = nb + [None] * (4 - len(nb))
            out.append(["set_atom_stereo", ["Tetrahedral", [a] + lig, 1]])
            if a in m.atom_stereo:
                out.append(["del_atom_stereo", a])
        for b in m.bonds:
            x, y = sorted(b)
            sx = sorted(m.neighbours(x) - {y})[:2]
            sy = sorted(m.neighbours(y) - {x})[:2]
            out.append(["set_bond_stereo", ["PlanarBond",
                        (sx + [None, None])[:2] + [x, y]
                        + (sy + [None, None])[:2], 0]])
            if b in m.bond_stereo:
                out.append(["del_bond_stereo", x, y])
    if m.cls == "SCRG":
        for a in A:
            nb = sorted(m.neighbours(a))[:4]
            lig = nb + [None] * (4 - len(nb))
            out.append(["set_atom_change",
                        {"broken": ["Tetrahedral", [a] + lig, 1],
                         "formed": ["Tetrahedral", [a] + lig, -1]}])
            if a in m.atom_changes:
                out.append(["del_atom_change", a, None])
                out.append(["del_atom_change", a,
                            sorted(m.atom_changes[a])[0]])
        for b in m.bonds:
            x, y = sorted(b)
            out.append(["set_bond_change", {"fleeting": [
                "PlanarBond", [None, None, x, y, None, None], 0]}])
            if b in m.bond_changes:
                out.append(["del_bond_change", x, y, None])
    if A:
        a = A[0]
        out.append(["relabel_inplace", [[a, 7]]] if 7 not in m.atoms
                   else ["relabel_inplace", [[7, a], [a, 7]]])
        if len(A) >= 2:
            out.append(["relabel_inplace", [[A[0], A[1]], [A[1], A[0]]]])
        out.append(["relabel_copy", [[A[-1], 7]]] if 7 not in m.atoms
                   else ["relabel_copy", [[A[-1], A[-1]]]])
        out.append(["copy"])
        out.append(["copy_ctor"])
    return out


def enumerate_queries(m: Model):
    qs = []
    present = list(m.atoms)[:2]
    for a in present + [3, -777]:
        for name in ("has_atom", "get_atom_type", "get_atom_attributes",
                     "bonded_to", "node_connected_component",
                     "neighbors-get"):
            qs.append([name, a])
        qs.append(["get_atom_attribute", a, "k"])
        if m.is_stereo:
            qs.append(["get_atom_stereo", a])
        if m.cls == "SCRG":
            qs.append(["get_atom_stereo_change", a])
            qs.append(["atom_stereo_changes-getitem", a])
    pairs = [tuple(sorted(b)) for b in list(m.bonds)[:1]]
    pairs += [(0, 3), (-777, 3)]
    if len(present) >= 2 and fs(*present) not in m.bonds:
        pairs.append(tuple(present))
    for a, b in pairs:
        qs.append(["has_bond", a, b])
        qs.append(["get_bond_attribute", a, b, "k"])
        qs.append(["get_bond_attributes", a, b])
        if m.is_stereo:
            qs.append(["get_bond_stereo", a, b])
        if m.cls == "SCRG":
            qs.append(["get_bond_stereo_change", a, b])
    for name in ("eq-self", "eq-copy", "hash", "str", "matrix", "components",
                 "json", "to_rdmol", "len"):
        qs.append([name])
    if m.is_stereo:
        qs.append(["stereo-valid"])
    if m.is_reaction:
        qs += [["active_atoms", 1], ["reactant"], ["formed"]]
    return qs


def fingerprint(g):
    """Hidden-state fingerprint, used ONLY to decide whether two histories
    may be merged (never as an oracle): container types and raw keys."""
    out = []
    for name in ("_atom_attrs", "_neighbors", "_bond_attrs", "_atom_stereo",
                 "_bond_stereo", "_atom_stereo_change",
                 "_bond_stereo_change"):
        d = getattr(g, name, None)
        if d is None:
            out.append(None)
            continue
        keys = sorted((repr(sorted(k)) if isinstance(k, frozenset)
                       else repr(k)) for k in d)
        out.append((type(d).__name__, keys))
    return repr(out)


def rebuild(cls, history):
    g = rc.classes()[cls]()
    for op in history:
        g = O.apply_real(g, op)
    return g


def bfs_replay(ctx, case):
    """replay file of explorer A: history + final element (op or query)"""
    cls = case["cls"]
    g = rc.classes()[cls]()
    m = Model(cls)
    for op in case["ops"]:
        g, m = step(cls, g, m, op)


def bfs(ctx, cls, depth, max_states, roots):
    """Breadth-first over histories that start with one of ``roots`` (first
    operations assigned to this shard).  Every transition and, once per newly
    discovered state, every query of the catalogue is executed on a freshly
    rebuilt real object.  States are merged on (model snapshot, hidden
    container fingerprint)."""
    seen = set()
    frontier = []
    states = transitions = qcount = 0
    empty = Model(cls)

    def visit(hist, m, op):
        """execute hist+[op] from state m; returns (m2 or None)"""
        nonlocal states, transitions, qcount
        m2 = O.apply_model(m, op)
        g = rebuild(cls, hist)
        case = {"cls": cls, "mode": "bfs", "ops": hist + [op]}
        transitions += 1
        try:
            g2, _ = step(cls, g, m, op)
        except Exception as v:
            ctx.fail_exc(v, case)
            return None
        try:
            key = (canonical_json(m2.snapshot()), fingerprint(g2))
        except Exception:
            return None
        if key in seen:
            return None
        seen.add(key)
        states += 1
        for q in enumerate_queries(m2):
            if not O.query_available(cls, q):
                continue
            qcount += 1
            gq = rebuild(cls, hist + [op])
            try:
                step(cls, gq, m2, ["q", q])
            except Exception as v:
                ctx.fail_exc(v, {"cls": cls, "mode": "bfs",
                                 "ops": hist + [op, ["q", q]]})
        return m2

    for op in roots:
        m2 = visit([], empty, op)
        if m2 is not None:
            frontier.append(([op], m2))
    for level in range(1, depth):
        nxt = []
        for hist, m in frontier:
            for op in enumerate_ops(m):
                m2 = visit(hist, m, op)
                if m2 is not None and len(seen) < max_states:
                    nxt.append((hist + [op], m2))
        frontier = nxt
        if not frontier:
            break
    return states, transitions, qcount


def run(ctx):
    # ---- explorer A
    depth = 4 if ctx.quick else 6
    max_states = 2500 if ctx.quick else 30000   # per shard subtree
    tot_s = tot_t = tot_q = 0
    jobs = [(cls, op) for cls in ("MG", "SMG", "CRG", "SCRG")
            for op in enumerate_ops(Model(cls))]
    mine = {}
    for k, (cls, op) in enumerate(jobs):
        if k % ctx.nshards == ctx.shard:
            mine.setdefault(cls, []).append(op)
    if getattr(ctx, "collect_only", False):
        mine = {}                      # atheris stage: generators only
    for cls, roots in mine.items():
        s, t, q = bfs(ctx, cls, depth, max_states, roots)
        tot_s += s
        tot_t += t
        tot_q += q
        ctx.count(t + q, labels=(f"bfs:{cls}",), nontrivial=t + q,
                  sample={"cls": cls, "mode": "bfs", "note":
                          f"{s} states, {t} transitions, {q} queries"})
    ctx.extra["states"] = tot_s             # per shard subtree (own seen set)
    ctx.extra["transitions"] = tot_t        # executed on the real classes
    ctx.extra["bfs_queries"] = tot_q
    ctx.extra["traces_validated_against_impl"] = tot_t + tot_q
    ctx.extra["bfs_depth_bound"] = str(depth)

    # ---- large graphs (a handful, sizes around powers of two of n*n)
    if not getattr(ctx, "collect_only", False):
        sizes = [182, 260] if ctx.quick else [128, 181, 182, 183, 200, 257,
                                               260, 330, 420]
        jobs = [(c, n) for n in sizes for c in ("MG", "SMG", "CRG", "SCRG")]
        for k, (c, n) in enumerate(jobs):
            if k % ctx.nshards != ctx.shard:
                continue
            case = {"cls": c, "mode": "scale", "n": n,
                    "seed": ctx.seed * 100 + n, "tail": 3}
            ctx.run_case(lambda cs: check_scale(ctx, cs), case)
            ctx.count(1, labels=(f"scale:{n}",), nontrivial=1)

    # ---- explorer B
    def check(case):
        labs = [f"cls:{case['cls']}", f"len:{len(case['ops'])//10*10}+"]
        for name in {o[0] for o in case["ops"]}:
            labs.append(f"op:{name}")
        ctx.note(case, nontrivial(case), labs)
        check_case(ctx, case)
        ctx.extra["traces_validated_against_impl"] = ctx.extra.get(
            "traces_validated_against_impl", 0) + 1

    ctx.hyp("c09", S.mapped(2500, gen), check, ctx.scale(4000, 60000),
            shrinker=shrink)
