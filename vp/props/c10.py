"""C10 - Derived graphs share no mutable state with their source."""
from __future__ import annotations

from vp import ops as O
from vp import recipes as rc
from vp import strategies as S
from vp.harness import HarnessError, Violation, guard
from vp.model import model_from_snapshot, snap_diff
from vp.props.c09 import diff_kind
from vp.snapshot import snapshot

ID = "C10"
LEVEL = "exploration"
QUICK_SHARDS = 4
MIN_NONTRIVIAL = 50
FUZZ_RUNS = 240000     # thorough tier: atheris executions (all children)
RULE = (
    "Every derivation is carried out twice; the edit must be invisible "
    "through the sibling as well, and the derivation must return a new "
    "object each time. "
    "Source recipe (all classes, attributes on atoms and bonds, descriptors, "
    "changes) x derivation in {copy(), copy-constructor (same class and "
    "every cross-class construction), relabel_atoms(copy=True), subgraph(S), "
    "compose([g]) / compose([g, disjoint h]) / compose([h, g]), "
    "enantiomer(), reverse_reaction(), reactant(), product(), _ts(), JSON "
    "round trip} x one follow-up edit generated for the edited side from "
    "the full mutator list (structure, attributes incl. atom_type / "
    "reaction, descriptors, changes whole or per role, in-place relabel) x "
    "side in {derived, source}. Oracle: the snapshot of the untouched side "
    "is identical before and after the edit; edits without effect are "
    "excluded. Non-trivial: the edited key (atom, bond, attribute, "
    "descriptor, change) exists on both sides; distinct = SHA-1."
)
ASSUMPTIONS = [
    "attribute values are immutable (ints / strs), so only container "
    "sharing is observable",
    "the edit is valid for the edited side (generated from a model read "
    "back from that side's own snapshot, so a faulty derivation cannot "
    "make the edit ill-formed)",
]
TRUSTED = ["vp/snapshot.py", "vp/ops.py"]

DERIVS = ("copy", "ctor", "ctor-cross", "relabel", "subgraph", "compose1",
          "compose2", "compose2r", "enantiomer", "reverse", "reactant",
          "product", "ts", "json")


def available(cls, deriv):
    if deriv == "enantiomer":
        return cls in ("SMG", "SCRG")
    if deriv in ("reverse", "reactant", "product", "ts"):
        return cls in ("CRG", "SCRG")
    return True


def derive(g, case):
    """-> derived real graph"""
    C = rc.classes()
    d = case["deriv"]
    name = d[0]
    if name == "copy":
        return g.copy()
    if name == "ctor":
        return type(g)(g)
    if name == "ctor-cross":
        return C[d[1]](g)
    if name == "relabel":
        return g.relabel_atoms({a: b for a, b in d[1]}, copy=True)
    if name == "subgraph":
        return g.subgraph(list(d[1]))
    if name == "compose1":
        return type(g).compose([g])
    if name in ("compose2", "compose2r"):
        h = rc.build(d[1])
        return type(g).compose([g, h] if name == "compose2" else [h, g])
    if name == "enantiomer":
        return g.enantiomer()
    if name == "reverse":
        return g.reverse_reaction()
    if name == "reactant":
        return g.reactant()
    if name == "product":
        return g.product()
    if name == "ts":
        return g._ts()
    if name == "json":
        from stereomolgraph.experimental import JSONHandler
        return JSONHandler.json_deserialize(JSONHandler.json_serialize(g))
    raise HarnessError(name)


def gen(data: bytes):
    tp = S.Tape(data)
    cls = tp.pick(["MG", "SMG", "CRG", "SCRG", "SMG", "SCRG"])
    m = S.gen_model(tp, cls, nmax=8, nmin=1, none_parity=20, attrs=True)
    S.attributes(tp, m, p=120)
    name = tp.pick([d for d in DERIVS if available(cls, d)])
    if name == "ctor-cross":
        deriv = [name, tp.pick([c for c in ("MG", "SMG", "CRG", "SCRG")
                                if c != cls])]
    elif name == "relabel":
        from vp.props.c11 import gen_mapping
        mp_ = gen_mapping(tp, m.atoms)
        if tp.chance(25):
            # a mapping that only names atoms of other graphs
            mp_ = [[90001 + i, 90101 + i] for i in range(1 + tp.below(3))]
        deriv = [name, mp_]
    elif name == "subgraph":
        atoms = list(m.atoms)
        k = 1 + tp.below(len(atoms))
        deriv = [name, tp.shuffle(atoms)[:k]]
    elif name in ("compose2", "compose2r"):
        h = S.gen_model(tp, cls, nmax=4, nmin=1, attrs=True, ids_mode=0)
        off = 5000
        h = h.relabel({a: a + off for a in h.atoms})
        deriv = [name, rc.from_model(h)]
    else:
        deriv = [name]
    return {"src": S.shuffled_recipe(tp, m), "deriv": deriv,
            "side": tp.pick(["derived", "source"]),
            "tseed": tp.below(1 << 30)}


def shrink(case):
    for cand in rc.shrink_candidates(case["src"], strict=False):
        yield {**case, "src": cand}
    if case["deriv"][0] in ("compose2", "compose2r"):
        for cand in rc.shrink_candidates(case["deriv"][1], strict=False):
            yield {**case, "deriv": [case["deriv"][0], cand]}


def edited_key_shared(op, other_snap):
    """does the edit touch a key that exists on the untouched side too?"""
    A, B = other_snap["atoms"], other_snap["bonds"]
    n = op[0]
    if n in ("remove_atom", "set_atom_attr", "del_atom_attr",
             "del_atom_stereo", "del_atom_change"):
        return op[1] in A
    if n in ("remove_bond", "set_bond_attr", "del_bond_attr",
             "del_bond_stereo", "del_bond_change"):
        return tuple(sorted(op[1:3])) in B
    if n == "add_bond":
        return op[1] in A and op[2] in A
    if n == "set_atom_stereo":
        return op[1][1][0] in A
    if n == "set_bond_stereo":
        return tuple(sorted(op[1][1][2:4])) in B
    if n == "set_atom_change":
        return next(iter(op[1].values()))[1][0] in A
    if n == "set_bond_change":
        return tuple(sorted(next(iter(op[1].values()))[1][2:4])) in B
    if n == "relabel_inplace":
        return any(a in A for a, _ in op[1])
    return False


def check_case(ctx, case):
    rc.require_valid(case["src"], strict=False)
    cls = case["src"]["cls"]
    name = case["deriv"][0]
    if not available(cls, name):
        raise HarnessError("derivation not available")
    if name == "subgraph" and not set(case["deriv"][1]) <= {
            a[0] for a in case["src"]["atoms"]}:
        raise HarnessError("subgraph: S must be a subset of the atoms")
    if name == "relabel":
        mp = dict(map(tuple, case["deriv"][1]))
        atoms = [a[0] for a in case["src"]["atoms"]]
        if len({mp.get(a, a) for a in atoms}) != len(atoms):
            raise HarnessError("relabel: not injective")
    g = rc.build(case["src"])
    try:
        d = derive(g, case)
        # a second, independent derivation of the same kind: siblings must
        # not share state with each other either (caches keyed by content)
        d_sib = derive(g, case)
        sg, sd = snapshot(g, "x", deep=False), snapshot(d, "x", deep=False)
        s_sib = snapshot(d_sib, "x", deep=False)
    except HarnessError:
        raise
    except Exception:
        # a failing derivation is the business of C08/C11/C15/C17
        ctx.exclude(f"derivation-failed:{name}")
        return None
    if d_sib is d or d is g:
        raise Violation(f"C10/{name}/same-object",
                        "the derivation returned an object it had handed "
                        "out before" if d_sib is d else
                        "the derivation returned its source")
    edited, other, s_other = (d, g, sg) if case["side"] == "derived" \
        else (g, d, sd)
    s_edit = sd if case["side"] == "derived" else sg
    me = model_from_snapshot(s_edit)
    ids = sorted(set(me.atoms) | set(s_other["atoms"])) + [9001, 9002]
    tp = S.seed_tape(case["tseed"])
    op = None
    for _ in range(6):
        op = O.gen_op(tp, me, ids, elements=(6, 8, 7), allow_copy=False)
        if op is not None and op[0] != "relabel_copy":
            break
    if op is None or op[0] == "relabel_copy":
        ctx.exclude("no-edit-possible")
        return None
    try:
        O.apply_real(edited, op)
        s_edit2 = snapshot(edited, "x", deep=False)
    except Exception:
        ctx.exclude(f"edit-failed:{op[0]}")
        return None
    if snap_diff(s_edit, s_edit2, "exact") is None:
        ctx.exclude("edit-had-no-effect")
        return None
    try:
        s_other2 = snapshot(other, f"C10/{name}/leaks")
    except Violation as v:
        raise Violation(v.sig, f"after {op} on the {case['side']} graph: "
                        f"{v.msg}")
    diff = snap_diff(s_other, s_other2, "exact")
    if diff:
        raise Violation(
            f"C10/{name}/leaks-{diff_kind(diff)}",
            f"{op} on the {case['side']} graph is visible through the "
            f"other one: {diff}")
    try:
        s_sib2 = snapshot(d_sib, f"C10/{name}/leaks-into-sibling")
    except Violation as v:
        raise Violation(v.sig, f"after {op} on the {case['side']} graph: "
                        f"{v.msg}")
    diff = snap_diff(s_sib, s_sib2, "exact")
    if diff:
        raise Violation(
            f"C10/{name}/leaks-into-sibling-{diff_kind(diff)}",
            f"{op} on the {case['side']} graph is visible through a second "
            f"graph derived the same way: {diff}")
    return op, edited_key_shared(op, s_other)


def run(ctx):
    def check(case):
        res = check_case(ctx, case)
        if res is None:
            return
        op, shared = res
        ctx.note(case, shared, [f"cls:{case['src']['cls']}",
                                f"deriv:{case['deriv'][0]}",
                                f"side:{case['side']}", f"edit:{op[0]}"])

    ctx.hyp("c10", S.mapped(1500, gen), check, ctx.scale(12000, 400000),
            shrinker=shrink)
