"""C07 - Perception from coordinates depends only on the 3D shape."""
from __future__ import annotations

import itertools
import math
import os

from vp import geom as G
from vp import recipes as rc
from vp import strategies as S
from vp import symmetry as sym
from vp.harness import HarnessError, Violation, guard, REPO_SRC
from vp.model import model_from_snapshot, snap_diff
from vp.props.c09 import diff_kind
from vp.snapshot import snapshot

ID = "C07"
LEVEL = "exploration"
QUICK_SHARDS = 4
MIN_NONTRIVIAL = 50
RULE = (
    "Lattices of 45-75 copies of one template unit (262-300 atoms, so that "
    "atom indices exceed 256) under the same motions and permutations. "
    "Geometries from (a) idealised tetrahedral / square-planar / "
    "trigonal-bipyramidal / octahedral / planar X2C=CY2 templates with "
    "per-ligand bond lengths from the radii, distinct or repeated ligand "
    "elements, noise up to 0.15 A, atoms listed in a drawn order (centre "
    "not first), optional spectator fragment; (b) ETKDG-embedded organic "
    "molecules from the constructive RDKit generator; (c) every "
    "single-frame XYZ file of the repository's tests and examples; (d) "
    "reactant/product/TS triples from those files. Each is moved by a drawn "
    "proper rotation (unit quaternion), translation up to +-50 A, atom "
    "permutation and optionally a reflection (triples: one permutation, "
    "independent motions). Oracle: the graph perceived from the moved "
    "geometry equals the graph perceived from the original, relabelled by "
    "the permutation (descriptors by geometric canonical form), or its "
    "model enantiomer after a reflection; is_stereo_valid(); every "
    "descriptor lists exactly the centre and its bonded neighbours. "
    "(placements) for each template with pairwise distinct ligands all "
    "24/120/720 placements of the ligands on the vertices are perceived and "
    "must denote exactly the placed arrangement, with one handedness "
    "convention per class. Geometries failing my own general-position "
    "margins (2 % around bonding cutoffs, 0.25 A around the 1.0 A planarity "
    "threshold for all four point/plane choices of every quadruple the "
    "perception inspects, 10 degrees for the TBP axis, signed volumes / dot "
    "products away from 0) are excluded and counted. Non-trivial: the "
    "permutation moves the stereocentre or a ligand and the rotation angle "
    "exceeds 10 degrees; distinct = SHA-1."
)
ASSUMPTIONS = [
    "general position is decided by vp/props/c07.py margins(), never by the "
    "code under test",
    "no absolute handedness convention is asserted, only consistency within "
    "a class (C14 ties the geometric route to RDKit's tags)",
]
TRUSTED = ["vp/geom.py", "vp/symmetry.py", "vp/model.py relabel/enantiomer"]

LIGANDS = [1, 9, 17, 35, 53, 8, 16, 7]
CENTRES = {"Tetrahedral": [6, 14, 15, 32, 5], "SquarePlanar": [78, 46, 28],
           "TrigonalBipyramidal": [15, 33, 26], "Octahedral": [16, 26, 27, 78],
           "PlanarBond": [6]}


# ---------------------------------------------------------------------------
# base geometries


def template_geometry(case):
    """-> (elements, coords) in the listing order of the case"""
    cls = case["cls"]
    elems, coords = [], []
    if cls == "PlanarBond":
        pts = sym.FIGURES["PlanarBond"]
        # scale: C=C 1.33, substituent bonds by radii
        x, y = (-0.665, 0.0, 0.0), (0.665, 0.0, 0.0)
        lig = case["ligands"]
        dirs = [(-0.5, 0.866, 0), (-0.5, -0.866, 0), None, None,
                (0.5, 0.866, 0), (0.5, -0.866, 0)]
        base = [None] * 6
        base[2], base[3] = (6, x), (6, y)
        for pos, z in zip((0, 1, 4, 5), lig):
            c = x if pos < 2 else y
            ln = (G.RADII[6] + G.RADII[z]) * case["lengths"][(0, 1, 4, 5).index(pos)]
            base[pos] = (z, G.add(c, G.scale(G.unit(dirs[pos]), ln)))
        atoms = base
    else:
        zc = case["centre"]
        atoms = [(zc, (0.0, 0.0, 0.0))]
        for k, (z, v) in enumerate(zip(case["ligands"], G.TEMPLATES[cls])):
            ln = (G.RADII[zc] + G.RADII[z]) * case["lengths"][k]
            atoms.append((z, G.scale(v, ln)))
    noise = case.get("noise") or [[0, 0, 0]] * len(atoms)
    atoms = [(z, G.add(p, tuple(nz))) for (z, p), nz in zip(atoms, noise)]
    for z, p in case.get("extra") or []:
        atoms.append((z, tuple(p)))
    order = case["order"]
    if sorted(order) != list(range(len(atoms))):
        raise HarnessError("order must be a permutation")
    return [atoms[i][0] for i in order], [atoms[i][1] for i in order]


def read_xyz(path):
    """independent minimal reader for the repository's data files"""
    inv = {v: k for k, v in G.SYMBOL.items()}
    with open(path) as fh:
        lines = fh.read().splitlines()
    n = int(lines[0].split()[0])
    rows = [ln.split() for ln in lines[2:] if len(ln.split()) == 4][:n]
    if len(rows) != n:
        raise HarnessError(f"{path}: expected {n} atoms")
    elems = [inv[r[0].capitalize()] for r in rows]
    coords = [tuple(float(v) for v in r[1:]) for r in rows]
    return elems, coords


REPO_ROOT = os.path.dirname(os.path.realpath(REPO_SRC))
FILES = [
    "tests/unit/data/(E)-(4S)-3,4-Dichlor-2-pentene.xyz",
    "tests/unit/data/(Z)-(4R)-3,4-Dichlor-2-pentene.xyz",
    "tests/unit/data/PCl5.xyz", "tests/unit/data/caffeine.xyz",
    "tests/unit/data/fluoro_chloro_bromomethane_r.xyz",
    "tests/unit/data/fluoro_chloro_bromomethane_s.xyz",
    "tests/unit/data/fluoro_chloro_bromomethane_ts.xyz",
    "tests/unit/data/methylamine_phosgenation_trans_p.xyz",
    "tests/unit/data/methylamine_phosgenation_trans_r.xyz",
    "tests/unit/data/methylamine_phosgenation_trans_ts.xyz",
    "tests/unit/data/orca_NEB-TS_converged.xyz", "tests/unit/data/water.xyz",
    "examples/TS_cis.xyz", "examples/TS_trans.xyz", "examples/prod.xyz",
    "examples/react.xyz",
    "tests/unit/data/conrot_reaction/(2S,3S)-1,1-Dichlor-2,3-dimethylcyclopropane.xyz",
    "tests/unit/data/conrot_reaction/(Z)-(4S)-3,4-Dichlor-2-pentene.xyz",
    "tests/unit/data/conrot_reaction/ts.xyz",
    "tests/unit/data/disrot_reaction/(2S,3S)-1,1-Dichlor-2,3-dimethylcyclopropane.xyz",
    "tests/unit/data/disrot_reaction/(Z)-(4S)-3,4-Dichlor-2-pentene.xyz",
    "tests/unit/data/disrot_reaction/ts.xyz",
]
TRIPLES = [
    ("tests/unit/data/fluoro_chloro_bromomethane_r.xyz",
     "tests/unit/data/fluoro_chloro_bromomethane_s.xyz",
     "tests/unit/data/fluoro_chloro_bromomethane_ts.xyz"),
    ("tests/unit/data/methylamine_phosgenation_trans_r.xyz",
     "tests/unit/data/methylamine_phosgenation_trans_p.xyz",
     "tests/unit/data/methylamine_phosgenation_trans_ts.xyz"),
    ("tests/unit/data/conrot_reaction/(2S,3S)-1,1-Dichlor-2,3-dimethylcyclopropane.xyz",
     "tests/unit/data/conrot_reaction/(Z)-(4S)-3,4-Dichlor-2-pentene.xyz",
     "tests/unit/data/conrot_reaction/ts.xyz"),
    ("tests/unit/data/disrot_reaction/(2S,3S)-1,1-Dichlor-2,3-dimethylcyclopropane.xyz",
     "tests/unit/data/disrot_reaction/(Z)-(4S)-3,4-Dichlor-2-pentene.xyz",
     "tests/unit/data/disrot_reaction/ts.xyz"),
    ("examples/react.xyz", "examples/prod.xyz", "examples/TS_cis.xyz"),
    ("examples/react.xyz", "examples/prod.xyz", "examples/TS_trans.xyz"),
    ("examples/react.xyz", "examples/prod.xyz", None),
]


def base_geometries(case):
    """-> list of (elements, coords); one entry, or three for a triple"""
    k = case["kind"]
    if k == "template":
        return [template_geometry(case)]
    if k == "file":
        return [read_xyz(os.path.join(REPO_ROOT, case["path"]))]
    if k == "triple":
        return [None if p is None else read_xyz(os.path.join(REPO_ROOT, p))
                for p in case["paths"]]
    if k == "raw":
        return [(case["elements"], [tuple(c) for c in case["coords"]])]
    if k == "grid":
        # many copies of one template unit on a lattice: atom indices far
        # beyond 256 (index arithmetic, identity vs. equality of indices)
        els, cs = template_geometry(case["unit"])
        E, C = [], []
        side = 1 + int(math.isqrt(case["copies"]))
        for q in range(case["copies"]):
            off = (case["spacing"] * (q % side), case["spacing"] * (q // side),
                   3.0 * (q % 3))
            E += list(els)
            C += [G.add(c, off) for c in cs]
        return [(E, C)]
    if k == "smiles":
        from rdkit import Chem
        from rdkit.Chem import AllChem
        from vp import rdgen
        mol = rdgen.mol_from_smiles(case["smiles"])
        if mol is None:
            raise HarnessError("unparsable SMILES")
        try:
            cid = AllChem.EmbedMolecule(mol, randomSeed=int(case["embed_seed"]))
        except Exception:
            cid = -1
        if cid != 0:
            return [None]
        conf = mol.GetConformer()
        return [([a.GetAtomicNum() for a in mol.GetAtoms()],
                 [tuple(conf.GetAtomPosition(i))
                  for i in range(mol.GetNumAtoms())])]
    raise HarnessError(k)


# ---------------------------------------------------------------------------
# general position


CUT_SCALE = [1.0]      # bonding criterion of the case in hand / default


def _switching(case):
    """the switching function of the case: None (default) or an instance
    whose table holds a wider cutoff for every element pair of the geometry,
    stored under ONE orientation of the pair only (the table is documented
    to be symmetric)"""
    f = case.get("cutoff_scale")
    if not f:
        return None
    from stereomolgraph.coords import BondsFromDistance
    from stereomolgraph.periodic_table import PERIODIC_TABLE
    sw = BondsFromDistance()
    zs = sorted(set(case["_elements"]))
    for i, z1 in enumerate(zs):
        for z2 in zs[i:]:
            a, b = PERIODIC_TABLE[z1], PERIODIC_TABLE[z2]
            key = (a, b) if (z1 + z2 + case.get("cutoff_flip", 0)) % 2 \
                else (b, a)
            sw.connectivity_cutoff[key] = f * (G.RADII[z1] + G.RADII[z2])
    return sw


def _adjacency(elems, coords, margin=0.02):
    n = len(elems)
    adj = {i: set() for i in range(n)}
    for i in range(n):
        for j in range(i + 1, n):
            d = math.dist(coords[i], coords[j])
            c = G.cutoff(elems[i], elems[j]) * CUT_SCALE[0]
            if abs(d - c) < margin * c:
                return None
            if d < c:
                adj[i].add(j)
                adj[j].add(i)
    return adj


NEAR = 0.1     # individual point/plane distance closer than this to the
               # 1.0 A threshold = "on the threshold" (excluded)


def _quad_class(pts):
    """'planar' / 'nonplanar' (all four point-to-plane distances on one side
    of the 1.0 A threshold), 'straddle' (every distance is clear of the
    threshold but they lie on different sides: the decision then depends on
    which point is measured against the plane of the other three), or None
    (some distance within NEAR of the threshold / degenerate triple)"""
    ds = []
    for k in range(4):
        others = [pts[i] for i in range(4) if i != k]
        d = G.point_plane_distance(pts[k], *others)
        if d is None:
            return None
        a, b, c = others
        if G.norm(G.cross(G.sub(a, b), G.sub(c, b))) < 0.2:
            return None
        ds.append(d)
    if any(abs(d - 1.0) < NEAR for d in ds):
        return None
    if all(d < 1.0 for d in ds):
        return "planar"
    if all(d > 1.0 for d in ds):
        return "nonplanar"
    return "straddle"


def straddles(elems, coords):
    """does some quadruple the perception inspects straddle the planarity
    threshold (order-dependent are_planar)?"""
    adj = _adjacency(elems, coords)
    if adj is None:
        return False
    for a, nb in adj.items():
        nb = sorted(nb)
        sets = []
        if len(nb) in (4, 5, 6):
            sets.append(nb)
        if len(nb) == 3:
            for b in nb:
                sb = sorted(adj[b] - {a})
                if len(sb) == 2:
                    sets.append([x for x in nb if x != b] + [a, b] + sb)
        for st in sets:
            for quad in itertools.combinations(st, 4):
                if _quad_class([coords[i] for i in quad]) == "straddle":
                    return True
    return False


def margins(elems, coords):
    """None if in general position, else the reason (string)"""
    adj = _adjacency(elems, coords)
    if adj is None:
        return "distance-near-cutoff"
    for a, nb in adj.items():
        nb = sorted(nb)
        if len(nb) == 4:
            q = _quad_class([coords[i] for i in nb])
            if q is None:
                return "4-coordinate-planarity-ambiguous"
            if q in ("nonplanar", "straddle"):
                v = G.signed_volume(*[coords[i] for i in nb])
                if abs(v) < 0.3:
                    return "tetrahedral-volume-small"
            if q in ("planar", "straddle"):
                # ring order by angle sum: best ahead of runner-up
                c = coords[a]
                sums = []
                for order in ((0, 1, 2, 3), (0, 1, 3, 2), (0, 2, 1, 3)):
                    p = [coords[nb[i]] for i in order]
                    sums.append(sum(G.angle_deg(p[i], p[(i + 1) % 4],
                                                p[(i + 2) % 4])
                                    for i in range(4)))
                sums.sort()
                if sums[-1] - sums[-2] < 20:
                    return "square-planar-order-ambiguous"
        elif len(nb) == 5:
            for quad in itertools.combinations(nb, 4):
                if _quad_class([coords[i] for i in quad]) is None:
                    return "5-coordinate-planarity-ambiguous"
            angs = sorted(G.angle_deg(coords[i], coords[a], coords[j])
                          for i, j in itertools.combinations(nb, 2))
            if angs[-1] - angs[-2] < 10:
                return "tbp-axis-ambiguous"
            if all(_quad_class([coords[i] for i in quad]) == "planar"
                   for quad in itertools.combinations(nb, 4)):
                return "5-coordinate-planar"
        elif len(nb) == 6:
            cls = [_quad_class([coords[i] for i in quad])
                   for quad in itertools.combinations(nb, 4)]
            if any(c is None for c in cls):
                return "6-coordinate-planarity-ambiguous"
        elif len(nb) == 3:
            for b in nb:
                sb = sorted(adj[b] - {a})
                if len(sb) != 2:
                    continue
                six = [x for x in nb if x != b] + [a, b] + sb
                pts = [coords[i] for i in six]
                cls = [_quad_class([pts[i] for i in quad])
                       for quad in itertools.combinations(range(6), 4)]
                if any(c is None for c in cls):
                    return "planar-bond-planarity-ambiguous"
                if all(c in ("planar", "straddle") for c in cls):
                    u = G.unit(G.sub(pts[0], pts[1]))
                    w = G.unit(G.sub(pts[4], pts[5]))
                    if abs(G.dot(u, w)) < 0.2:
                        return "planar-bond-orientation-ambiguous"
    return None


# ---------------------------------------------------------------------------


def _geo(elems, coords):
    import numpy as np
    from stereomolgraph.coords import Geometry
    return Geometry(list(elems), np.array(coords, dtype=float).reshape(-1, 3))


SWITCH = [None]


def perceive(geos, stage):
    """-> real graph (SMG for one geometry, SCRG for a triple)"""
    from stereomolgraph import StereoCondensedReactionGraph, StereoMolGraph
    if len(geos) == 1:
        with guard(f"C07/{stage}/from_geometry"):
            if SWITCH[0] is not None:
                return StereoMolGraph.from_geometry(
                    _geo(*geos[0]), switching_function=SWITCH[0])
            return StereoMolGraph.from_geometry(_geo(*geos[0]))
    r, p, t = geos
    with guard(f"C07/{stage}/from_geometries"):
        return StereoCondensedReactionGraph.from_geometries(
            _geo(*r), _geo(*p), None if t is None else _geo(*t))


def validity(g, snap, stage):
    """every descriptor = centre + exactly its bonded neighbours"""
    with guard(f"C07/{stage}/is_stereo_valid"):
        ok = g.is_stereo_valid()
    cls = snap["cls"]
    adj = {a: set() for a in snap["atoms"]}
    for x, y in snap["bonds"]:
        adj[x].add(y)
        adj[y].add(x)
    if cls == "SMG":
        for a, d in snap["atom_stereo"].items():
            lig = set(d[1][1:])
            if d[1][0] != a or None in lig or lig != adj[a]:
                raise Violation(
                    f"C07/{stage}/descriptor-not-over-bonded-neighbours/"
                    f"{d[0]}", f"atom {a}: {d}, bonded to {sorted(adj[a])}")
        for b, d in snap["bond_stereo"].items():
            x, y = d[1][2], d[1][3]
            if {x, y} != set(b) or set(d[1][0:2]) != adj[x] - {y} or \
                    set(d[1][4:6]) != adj[y] - {x}:
                raise Violation(
                    f"C07/{stage}/descriptor-not-over-bonded-neighbours/"
                    f"{d[0]}", f"bond {b}: {d}")
        if not ok:
            raise Violation(f"C07/{stage}/not-stereo-valid", "")


def moved_geometries(case, geos):
    n = len(geos[0][0])
    perm = case["perm"]
    if sorted(perm) != list(range(n)):
        raise HarnessError("perm must be a permutation of the atoms")
    out = []
    for k, ge in enumerate(geos):
        if ge is None:
            out.append(None)
            continue
        mv = case["motions"][k if k < len(case["motions"]) else 0]
        R = G.quat_matrix(mv["quat"])
        mir = mv.get("mirror") if case.get("mirror") else None
        cs = G.transform(ge[1], R, tuple(mv["shift"]), mirror_normal=mir)
        out.append(([ge[0][p] for p in perm], [cs[p] for p in perm]))
    return out


def check_move(ctx, case):
    CUT_SCALE[0], SWITCH[0] = 1.0, None
    try:
        return _check_move_outer(ctx, case)
    finally:
        CUT_SCALE[0], SWITCH[0] = 1.0, None


def _check_move_outer(ctx, case):
    geos = base_geometries(case)
    if geos == [None]:
        ctx.exclude("embedding-failed")
        return None
    if case.get("cutoff_scale") and len(geos) == 1:
        case = {**case, "_elements": list(geos[0][0])}
        CUT_SCALE[0] = case["cutoff_scale"] / 1.2
        SWITCH[0] = _switching(case)
    if case["kind"] == "smiles":
        n = len(geos[0][0])
        if sorted(case["perm"]) != list(range(n)):
            raise HarnessError("perm does not fit the embedded molecule")
    for ge in geos:
        if ge is not None:
            why = margins(*ge)
            if why:
                ctx.exclude(f"margin:{why}")
                return None
    strad = any(ge is not None and straddles(*ge) for ge in geos)
    try:
        res = _check_move(ctx, case, geos)
    except Violation as v:
        if strad:
            raise Violation(v.sig + "/straddling-planarity", v.msg +
                            " [a quadruple inspected by the perception has "
                            "point/plane distances on both sides of the "
                            "1.0 A threshold]")
        raise
    if res is not None:
        res["straddles"] = strad
    return res


def _check_move(ctx, case, geos):
    kind = "triple" if len(geos) == 3 else "single"
    present = [ge for ge in geos if ge is not None]
    if len(geos) == 3:
        g0 = perceive(geos, "original")
    else:
        g0 = perceive(geos, "original")
    try:
        s0 = snapshot(g0, "C07/original")
    except Violation as v:
        raise Violation(v.sig, v.msg)
    validity(g0, s0, "original")
    moved = moved_geometries(case, geos)
    g1 = perceive(moved, "moved")
    s1 = snapshot(g1, "C07/moved")
    validity(g1, s1, "moved")
    perm = case["perm"]
    mapping = {old: new for new, old in enumerate(perm)}
    want = model_from_snapshot(s0).relabel(mapping)
    if case.get("mirror"):
        want = want.enantiomer()
    d = snap_diff(s1, want.snapshot(), "canon", attrs=False)
    if d:
        what = "reflection" if case.get("mirror") else "rigid-motion+permutation"
        # which descriptor class is involved
        dk = diff_kind(d)
        cls = ""
        for c in sym.CLASSES:
            if c in d:
                cls = "/" + c
                break
        raise Violation(f"C07/{kind}/{what}/{dk}{cls}",
                        f"moved geometry vs relabelled original: {d}")
    # non-trivial?
    centres = set(s0["atom_stereo"]) | {x for b in s0["bond_stereo"] for x in b}
    for key in ("atom_changes", "bond_changes"):
        for k_ in s0[key]:
            centres |= set(k_) if isinstance(k_, tuple) else {k_}
    lig = set()
    for d_ in list(s0["atom_stereo"].values()) + list(
            s0["bond_stereo"].values()):
        lig |= {a for a in d_[1] if a is not None}
    for key in ("atom_changes", "bond_changes"):
        for ch in s0[key].values():
            for d_ in ch.values():
                lig |= {a for a in d_[1] if a is not None}
    moves = any(mapping[a] != a for a in centres | lig)
    ang = G.rot_angle_deg(G.quat_matrix(case["motions"][0]["quat"]))
    return {"nontrivial": moves and ang > 10,
            "classes": sorted({d_[0] for d_ in s0["atom_stereo"].values()}
                              | {d_[0] for d_ in s0["bond_stereo"].values()}),
            "changes": len(s0["atom_changes"]) + len(s0["bond_changes"])}


# ---------------------------------------------------------------------------
# placements


def placement_case_geometry(case):
    cls = case["cls"]
    k = 4 if cls == "PlanarBond" else sym.NPOS[cls] - 1
    sigma = case["sigma"]
    if sorted(sigma) != list(range(k)):
        raise HarnessError("sigma must be a permutation")
    ligs = case["ligand_elements"]
    if len(set(ligs)) != k:
        raise HarnessError("placements need pairwise distinct ligands")
    # vertex v holds ligand sigma[v]
    tc = {"kind": "template", "cls": cls, "centre": case.get("centre"),
          "ligands": [ligs[sigma[v]] for v in range(k)],
          "lengths": case["lengths"], "noise": case.get("noise"),
          "order": case["order"]}
    return template_geometry(tc)


def check_placement(ctx, case, cache=None):
    """perceived descriptor of placement sigma denotes the arrangement
    'vertex v holds ligand sigma[v]' with the class-wide sign convention
    fixed by the identity placement"""
    cls = case["cls"]
    k = 4 if cls == "PlanarBond" else sym.NPOS[cls] - 1

    def perceived(sigma):
        c = {**case, "sigma": list(sigma)}
        elems, coords = placement_case_geometry(c)
        why = margins(elems, coords)
        if why:
            return None, why
        g = perceive([(elems, coords)], f"placement/{cls}")
        s = snapshot(g, f"C07/placement/{cls}")
        validity(g, s, f"placement/{cls}")
        order = case["order"]
        # atom id in the listing = position in `order`; template atom t is
        # listed at index order.index(t)
        pos = {t: i for i, t in enumerate(order)}
        if cls == "PlanarBond":
            # template atoms: 0,1 subst on x(2); 3=y; 4,5 subst
            x, y = pos[2], pos[3]
            d = s["bond_stereo"].get(tuple(sorted((x, y))))
            if d is None:
                raise Violation(f"C07/placement/{cls}/no-descriptor",
                                f"sigma={sigma}")
            # vertex v (template position (0,1,4,5)[v]) holds ligand
            # sigma[v]; ligand l is identified by its element
            want_atoms = [None] * 6
            for v, tpos in enumerate((0, 1, 4, 5)):
                want_atoms[tpos] = pos[tpos]
            want_atoms[2], want_atoms[3] = x, y
            lig_of = {pos[tpos]: sigma[v]
                      for v, tpos in enumerate((0, 1, 4, 5))}
            lig_of[x], lig_of[y] = "x", "y"
            named = (d[0], tuple(lig_of[a] for a in d[1]), d[2])
            return named, None
        centre = pos[0]
        d = s["atom_stereo"].get(centre)
        if d is None:
            raise Violation(f"C07/placement/{cls}/no-descriptor",
                            f"sigma={sigma}: {s['atom_stereo']}")
        # template atom 1+v sits on vertex v and is ligand sigma[v]
        lig_of = {pos[1 + v]: sigma[v] for v in range(k)}
        lig_of[centre] = "c"
        bad = [a for a in d[1] if a not in lig_of]
        if bad:
            raise Violation(
                f"C07/placement/{cls}/descriptor-uses-foreign-ids",
                f"sigma={sigma}: {d}; atoms of the complex are "
                f"{sorted(lig_of)}")
        named = (d[0], tuple(lig_of[a] for a in d[1]), d[2])
        return named, None

    def named_key(t):
        return tuple((0, 0) if a is None else (1, str(a)) for a in t)

    def canon_named(cls_, t, p):
        # canonical form over string/int mixed labels
        t = tuple(t)
        if sym.ACHIRAL[cls_]:
            return min((sym.apply(g, t) for g in sym.PROPER[cls_]),
                       key=named_key)
        if p == -1:
            t = sym.apply(sym.IMPROPER[cls_][0], t)
        return min((sym.apply(g, t) for g in sym.PROPER[cls_]),
                   key=named_key)

    def expected(sigma, sign):
        if cls == "PlanarBond":
            t = (sigma[0], sigma[1], "x", "y", sigma[2], sigma[3])
        else:
            t = ("c",) + tuple(sigma)
        return canon_named(cls, t, sign)

    ident = tuple(range(k))
    d_id, why = perceived(ident)
    if d_id is None:
        ctx.exclude(f"margin:{why}")
        return None
    if d_id[0] != cls:
        raise Violation(f"C07/placement/{cls}/wrong-class", f"{d_id}")
    sign = None
    got_id = canon_named(cls, d_id[1], d_id[2])
    for s_ in ((0,) if sym.ACHIRAL[cls] else (1, -1)):
        if got_id == expected(ident, s_):
            sign = s_
    if sign is None:
        raise Violation(
            f"C07/placement/{cls}/identity-placement-misperceived",
            f"perceived {d_id} for ligands 0..{k-1} on vertices 0..{k-1}")
    sigma = tuple(case["sigma"])
    d_s, why = perceived(sigma)
    if d_s is None:
        ctx.exclude(f"margin:{why}")
        return None
    if d_s[0] != cls:
        raise Violation(f"C07/placement/{cls}/wrong-class",
                        f"ligand placement {sigma}: perceived {d_s}")
    got = canon_named(cls, d_s[1], d_s[2])
    if got != expected(sigma, sign):
        rel = ("mirror-image" if not sym.ACHIRAL[cls] and d_s[0] == cls
               and got == expected(sigma, -sign) else "other-arrangement")
        raise Violation(
            f"C07/placement/{cls}/perceived-{rel}",
            f"ligand placement {sigma}: perceived {d_s}; convention fixed "
            f"by the identity placement is sign {sign}")
    return sigma != ident


def check_case(ctx, case):
    if case["kind"] == "placement":
        return check_placement(ctx, case)
    return check_move(ctx, case)


# ---------------------------------------------------------------------------
# generators


def _motion(tp):
    # translations of any magnitude a double still resolves to 1e-7 A
    mag = tp.pick([50, 50, 50, 1e3, 1e5, 1e7, 1e8])
    return {"quat": list(G.draw_quat(tp)), "shift": list(G.draw_vec(tp, mag)),
            "mirror": list(G.draw_unit(tp))}


def gen_template(tp):
    cls = tp.pick(["Tetrahedral", "SquarePlanar", "TrigonalBipyramidal",
                   "Octahedral", "PlanarBond", "Tetrahedral", "Octahedral"])
    k = 4 if cls == "PlanarBond" else sym.NPOS[cls] - 1
    pool = tp.shuffle(LIGANDS)
    if tp.chance(128):
        ligs = pool[:k]                              # pairwise distinct
    else:
        m = 1 + tp.below(3)
        ligs = [pool[tp.below(m)] for _ in range(k)]   # repeated
    amp = tp.pick([0.0, 0.02, 0.05, 0.1, 0.15])
    natoms = k + (2 if cls == "PlanarBond" else 1)
    noise = [[(tp.below(2001) - 1000) / 1000.0 * amp for _ in range(3)]
             for _ in range(natoms)]
    extra = []
    if tp.chance(70):
        extra = [[8, [30.0, 0.0, 0.0]], [1, [30.6, 0.75, 0.0]],
                 [1, [30.6, -0.75, 0.0]]]
    n = natoms + len(extra)
    lengths = [0.92 + tp.below(17) / 100.0 for _ in range(k)]
    wide = None
    if tp.chance(30):
        # a user-supplied, wider bonding criterion (1.35 x the radii) and one
        # ligand between the default and that criterion
        wide = 1.35
        lengths[tp.below(k)] = 1.24 + tp.below(8) / 100.0
    return {"kind": "template", "cls": cls,
            "centre": tp.pick(CENTRES[cls]), "ligands": ligs,
            "lengths": lengths, "cutoff_scale": wide,
            "cutoff_flip": tp.below(2),
            "noise": noise, "extra": extra,
            "order": tp.shuffle(range(n)), "perm": tp.shuffle(range(n)),
            "motions": [_motion(tp)], "mirror": tp.chance(90)}


def gen_file(tp):
    if tp.chance(100):
        paths = list(tp.pick(TRIPLES))
        n = len(read_xyz(os.path.join(REPO_ROOT, paths[0]))[0])
        return {"kind": "triple", "paths": paths,
                "perm": tp.shuffle(range(n)),
                "motions": [_motion(tp) for _ in range(3)],
                "mirror": tp.chance(90)}
    path = tp.pick(FILES)
    n = len(read_xyz(os.path.join(REPO_ROOT, path))[0])
    return {"kind": "file", "path": path, "perm": tp.shuffle(range(n)),
            "motions": [_motion(tp)], "mirror": tp.chance(90)}


def gen_smiles(tp):
    from vp import rdgen
    smi = rdgen.organic_smiles(tp, max_heavy=8) or "C[C@H](F)Cl"
    mol = rdgen.mol_from_smiles(smi)
    n = mol.GetNumAtoms()
    return {"kind": "smiles", "smiles": smi,
            "embed_seed": 1 + tp.below(10**6), "perm": tp.shuffle(range(n)),
            "motions": [_motion(tp)], "mirror": tp.chance(90)}


def gen_sqpyr(tp):
    """five-coordinate centre between trigonal bipyramid and square pyramid:
    two trans pairs with clearly different angles (both may exceed 150
    degrees), one apical ligand"""
    zc = tp.pick([15, 33, 51, 26])
    ligs = tp.shuffle(LIGANDS)[:5]
    a1 = 166 + tp.below(13)            # larger trans angle
    a2 = a1 - 12 - tp.below(40)        # smaller one, >= 12 degrees behind
    t1, t2 = math.radians(a1 / 2), math.radians(a2 / 2)
    dirs = [(0, 0, 1),
            (math.sin(t1), 0, -math.cos(t1)), (-math.sin(t1), 0, -math.cos(t1)),
            (0, math.sin(t2), -math.cos(t2)), (0, -math.sin(t2), -math.cos(t2))]
    atoms = [(zc, (0.0, 0.0, 0.0))]
    for z, v in zip(ligs, dirs):
        ln = (G.RADII[zc] + G.RADII[z]) * (0.95 + tp.below(11) / 100.0)
        atoms.append((z, G.scale(G.unit(v), ln)))
    order = tp.shuffle(range(6))
    return {"kind": "raw", "elements": [atoms[i][0] for i in order],
            "coords": [list(atoms[i][1]) for i in order],
            "perm": tp.shuffle(range(6)), "motions": [_motion(tp)],
            "mirror": tp.chance(90), "shape": "square-pyramid-like"}


def gen_seesaw(tp):
    """four-coordinate, non-planar centre that lies OUTSIDE the tetrahedron
    of its ligands (see-saw / strongly pyramidalised): all ligands in one
    half space"""
    zc = tp.pick([52, 16, 34, 51, 6])
    ligs = tp.shuffle(LIGANDS)[:4]
    a = math.radians((150 + tp.below(28)) / 2)       # axial half angle
    e = math.radians((85 + tp.below(40)) / 2)        # equatorial half angle
    tilt = 0.03 + tp.below(30) / 100.0               # axial z offset >= 0
    dirs = [(math.sin(a), 0, math.cos(a) + tilt),
            (-math.sin(a), 0, math.cos(a) + tilt),
            (0, math.sin(e), math.cos(e)), (0, -math.sin(e), math.cos(e))]
    atoms = [(zc, (0.0, 0.0, 0.0))]
    for z, v in zip(ligs, dirs):
        ln = (G.RADII[zc] + G.RADII[z]) * (0.95 + tp.below(11) / 100.0)
        atoms.append((z, G.scale(G.unit(v), ln)))
    order = tp.shuffle(range(5))
    return {"kind": "raw", "elements": [atoms[i][0] for i in order],
            "coords": [list(atoms[i][1]) for i in order],
            "perm": tp.shuffle(range(5)), "motions": [_motion(tp)],
            "mirror": tp.chance(90), "shape": "see-saw"}


def gen_grid(data: bytes):
    tp = S.Tape(data)
    want = tp.pick(["PlanarBond", "PlanarBond", "Tetrahedral",
                    "SquarePlanar"])
    unit = gen_template(tp)
    for _ in range(40):
        if unit["cls"] == want:
            break
        unit = gen_template(tp)
    if unit["cls"] not in ("PlanarBond", "Tetrahedral", "SquarePlanar"):
        unit = gen_template(S.Tape(b""))        # the simplest unit
    unit["extra"] = []
    nat = len(unit["noise"])
    unit["order"] = tp.shuffle(range(nat))
    copies = -(-(262 + tp.below(40)) // nat)
    n = copies * nat
    return {"kind": "grid", "unit": unit, "copies": copies, "spacing": 25.0,
            "perm": tp.shuffle(range(n)), "motions": [_motion(tp)],
            "mirror": tp.chance(90)}


def gen(data: bytes):
    tp = S.Tape(data)
    k = tp.weighted([3, 2, 6, 1])
    if k == 3 and tp.chance(128):
        return gen_seesaw(tp)
    if k == 0:
        return gen_file(tp)
    if k == 1:
        return gen_smiles(tp)
    if k == 3:
        return gen_sqpyr(tp)
    return gen_template(tp)


def shrink(case):
    n = len(case.get("perm", []))
    if case["kind"] in ("template", "file", "triple", "smiles", "raw",
                        "grid"):
        ident = list(range(n))
        if case["perm"] != ident:
            yield {**case, "perm": ident}
        if case.get("mirror"):
            yield {**case, "mirror": False}
        zero = {"quat": [1.0, 0.0, 0.0, 0.0], "shift": [0.0, 0.0, 0.0],
                "mirror": case["motions"][0].get("mirror", [1, 0, 0])}
        if case["motions"][0]["quat"] != zero["quat"] or \
                case["motions"][0]["shift"] != zero["shift"]:
            yield {**case, "motions": [zero] * len(case["motions"])}
    if case["kind"] == "template":
        if case.get("extra"):
            k = len(case["extra"])
            n0 = n - k
            yield {**case, "extra": [],
                   "order": [o for o in case["order"] if o < n0],
                   "perm": list(range(n0))}
        if any(any(v for v in r) for r in case["noise"]):
            yield {**case, "noise": [[0, 0, 0]] * len(case["noise"])}
        if case["order"] != list(range(n)):
            yield {**case, "order": list(range(n))}


def run(ctx):
    def check(case):
        res = check_move(ctx, case)
        if res is None:
            return
        labs = [f"kind:{case['kind']}",
                "mirror" if case.get("mirror") else "proper"]
        if case["kind"] == "template":
            labs.append(f"template:{case['cls']}")
        labs += [f"perceived:{c}" for c in res["classes"]]
        if res["changes"]:
            labs.append("has-stereo-change")
        if res.get("straddles"):
            labs.append("straddling-planarity")
        ctx.note(case, res["nontrivial"], labs)

    ctx.hyp("c07", S.mapped(800, gen), check, ctx.scale(10000, 200000),
            shrinker=shrink)
    ctx.hyp("c07-grid", S.mapped(1200, gen_grid), check, ctx.scale(16, 320),
            shrinker=shrink)

    # ---- placements: exhaustive for each class with distinct ligands
    for cls in ("Tetrahedral", "SquarePlanar", "TrigonalBipyramidal",
                "Octahedral", "PlanarBond"):
        k = 4 if cls == "PlanarBond" else sym.NPOS[cls] - 1
        perms = list(itertools.permutations(range(k)))
        tp = S.seed_tape(ctx.seed * 31 + k)
        nvar = 2 if ctx.quick else 12
        for var in range(nvar):
            n = k + (2 if cls == "PlanarBond" else 1)
            base = {"kind": "placement", "cls": cls,
                    "centre": tp.pick(CENTRES[cls]),
                    "ligand_elements": tp.shuffle(LIGANDS)[:k],
                    "lengths": [0.92 + tp.below(17) / 100.0
                                for _ in range(k)],
                    "noise": [[(tp.below(2001) - 1000) / 1000.0 * 0.04
                               for _ in range(3)] for _ in range(n)],
                    "order": tp.shuffle(range(n))}
            for i, sg in enumerate(perms):
                if i % ctx.nshards != ctx.shard:
                    continue
                case = {**base, "sigma": list(sg)}
                try:
                    nt = check_placement(ctx, case)
                except Exception as v:
                    ctx.fail_exc(v, case)
                    continue
                if nt is None:
                    continue
                ctx.count(1, labels=(f"placement:{cls}",),
                          nontrivial=1 if nt else 0,
                          sample=case if (i == ctx.shard + 4 and var == 0)
                          else None)
