"""C08 - Reaction graphs decompose and reverse faithfully."""
from __future__ import annotations

from vp import recipes as rc
from vp import strategies as S
from vp import symmetry as sym
from vp.harness import HarnessError, Violation, guard
from vp.model import Model, fs, snap_diff, validity_error
from vp.props.c09 import diff_kind
from vp.snapshot import snapshot

ID = "C08"
LEVEL = "exploration"
QUICK_SHARDS = 4
MIN_NONTRIVIAL = 50
FUZZ_RUNS = 160000     # thorough tier: atheris executions (all children)
RULE = (
    "(from_graphs) atom set of 1-10 atoms; bond sets R, P and TS >= R u P "
    "(TS optional); three stereo-valid, fully specified decorations so that "
    "per atom and per bond every combination of {absent, equal (possibly "
    "re-spelled), other parity, other class / other ligands} between "
    "reactant, TS and product occurs; both CondensedReactionGraph and "
    "StereoCondensedReactionGraph. Oracle: rg.reactant() / rg.product() are "
    "labelled-identical to the inputs (atoms, elements, bonds; descriptors "
    "by geometric canonical form), formed = P\\R, broken = R\\P, fleeting = "
    "TS\\(R u P), inputs untouched. (reverse) any generated reaction graph "
    "x: reverse_reaction() has reactant and product swapped incl. stereo, "
    "the same fleeting bonds and fleeting stereo, x untouched, and "
    "reversing twice gives a snapshot identical to x. Non-trivial: at least "
    "one formed bond, one broken bond and one stereo change / differing "
    "descriptor; distinct = SHA-1."
)
ASSUMPTIONS = [
    "from_graphs gets reactant / product / TS over one atom set with equal "
    "elements and TS bonds containing all reactant and product bonds",
    "from_graphs is documented to build from connectivity and stereo only, "
    "so attributes of the inputs are not compared",
]
TRUSTED = ["vp/model.py state()/reverse()", "vp/symmetry.py"]


def _variant_desc(tp, d, m, which):
    """another descriptor for the same centre, relation drawn"""
    k = tp.weighted([3, 3, 2, 2])
    if k == 0:
        return d                                        # identical
    if k == 1:
        return list(sym.respell(d[0], d[1], d[2], tp.below(48),
                                improper=tp.chance(128)))  # same arrangement
    if k == 2 and d[2] in (1, -1):
        return [d[0], list(d[1]), -d[2]]                # mirror image
    if k == 3:
        return None                                     # absent
    t = list(d[1])
    lig = (list(range(1, len(t))) if d[0] in sym.ATOM_CLASSES
           else [4, 5])
    i, j = tp.pick(lig), tp.pick(lig)
    t[i], t[j] = t[j], t[i]
    return [d[0], t, d[2]]


def gen_triple(tp: S.Tape):
    r = S.skeleton(tp, "SMG", nmax=10, nmin=1, kmax=3)
    atoms = list(r.atoms)
    p = Model("SMG")
    ts = Model("SMG")
    for a, at in r.atoms.items():
        p.add_atom(a, at["atom_type"])
        ts.add_atom(a, at["atom_type"])
    for b in r.bonds:
        if not tp.chance(70):
            p.bonds[b] = {}
    for _ in range(tp.below(4)):
        if len(atoms) >= 2:
            x, y = tp.pick(atoms), tp.pick(atoms)
            if x != y:
                p.bonds.setdefault(fs(x, y), {})
    for b in list(r.bonds) + list(p.bonds):
        ts.bonds.setdefault(b, {})
    for _ in range(tp.below(3)):
        if len(atoms) >= 2:
            x, y = tp.pick(atoms), tp.pick(atoms)
            if x != y:
                ts.bonds.setdefault(fs(x, y), {})
    S.decorate(tp, r, p_atom=200, p_bond=120)
    # product / TS decorations: related to the reactant's where the
    # neighbourhood is the same, fresh otherwise
    for other in (p, ts):
        for a in atoms:
            same_nb = other.neighbours(a) == r.neighbours(a)
            if a in r.atom_stereo and same_nb and tp.chance(200):
                d = _variant_desc(tp, r.atom_stereo[a], r, "atom")
                if d is not None:
                    other.set_atom_stereo(d)
            elif tp.chance(150):
                d = S.atom_desc(tp, a, sorted(other.neighbours(a)),
                                allow2=False)
                if d is not None:
                    other.set_atom_stereo(d)
        for b in list(other.bonds):
            x, y = sorted(b)
            same = (b in r.bonds and other.neighbours(x) == r.neighbours(x)
                    and other.neighbours(y) == r.neighbours(y))
            if b in r.bond_stereo and same and tp.chance(200):
                d = _variant_desc(tp, r.bond_stereo[b], r, "bond")
                if d is not None:
                    other.set_bond_stereo(d)
            elif tp.chance(90):
                d = S.bond_desc(tp, x, y,
                                sorted(other.neighbours(x) - {y}),
                                sorted(other.neighbours(y) - {x}))
                if d is not None:
                    other.set_bond_stereo(d)
    with_ts = tp.chance(170)
    return r, p, (ts if with_ts else None)


def gen(data: bytes):
    tp = S.Tape(data)
    if tp.chance(90):
        cls = tp.pick(["CRG", "SCRG", "SCRG"])
        m = S.gen_model(tp, cls, nmax=9, nmin=1, attrs=True, p_role=110)
        return {"mode": "reverse", "x": S.shuffled_recipe(tp, m),
                "warm": tp.pick([0, 0, 1, 2, 3])}
    r, p, ts = gen_triple(tp)
    cls = tp.pick(["CRG", "SCRG", "SCRG"])
    return {"mode": "from_graphs", "cls": cls,
            "r": S.shuffled_recipe(tp, r), "p": S.shuffled_recipe(tp, p),
            "ts": None if ts is None else S.shuffled_recipe(tp, ts),
            "warm": tp.pick([0, 0, 1, 2, 3])}


def shrink(case):
    if case["mode"] == "reverse":
        for cand in rc.shrink_candidates(case["x"], strict=False):
            yield {**case, "x": cand}
        return
    if case["ts"] is not None:
        yield {**case, "ts": None}
    # remove an atom from all three graphs at once
    atoms = [a[0] for a in case["r"]["atoms"]]
    for a in atoms:
        new = {}
        for key in ("r", "p", "ts"):
            if case[key] is None:
                new[key] = None
                continue
            from vp.model import prune
            m = rc.model(case[key])
            m.remove_atom(a)
            new[key] = rc.from_model(prune(m))
        yield {**case, **new}
    for key in ("r", "p", "ts"):
        if case[key] is None:
            continue
        m = rc.model(case[key])
        for kd, k_, role, d in list(m.all_descs()):
            m2 = m.copy()
            del (m2.atom_stereo if kd == "atom" else m2.bond_stereo)[k_]
            yield {**case, key: rc.from_model(m2)}
        for b in list(m.bonds):
            # removing a bond from r/p is allowed when ts keeps covering
            if key == "ts":
                mr, mp_ = rc.model(case["r"]), rc.model(case["p"])
                if b in mr.bonds or b in mp_.bonds:
                    continue
            from vp.model import prune
            m2 = m.copy()
            del m2.bonds[b]
            yield {**case, key: rc.from_model(prune(m2))}


def _same_molecule(stage, got_snap, want: Model):
    ws = want.snapshot()
    d = snap_diff(got_snap, ws, "canon", attrs=False)
    if d:
        raise Violation(f"C08/{stage}/{diff_kind(d)}", d)


def check_from_graphs(ctx, case):
    cls = case["cls"]
    mr = rc.require_valid(case["r"])
    mp_ = rc.require_valid(case["p"])
    mt = None if case["ts"] is None else rc.require_valid(case["ts"])
    ids_types = {a: at["atom_type"] for a, at in mr.atoms.items()}
    for m in (mp_, mt):
        if m is not None and {a: at["atom_type"]
                              for a, at in m.atoms.items()} != ids_types:
            raise HarnessError("from_graphs: one atom set required")
    if mt is not None and not (set(mr.bonds) | set(mp_.bonds)) <= set(
            mt.bonds):
        raise HarnessError("from_graphs: TS must contain all bonds")
    for m in (mr, mp_, mt):
        if m is not None and any(d[2] is None for *_, d in m.all_descs()):
            raise HarnessError("fully specified parities only")
    stereo = cls == "SCRG"
    C = rc.classes()
    make = (lambda rec: rc.build(rec)) if stereo else (
        lambda rec: C["MG"](rc.build(rec)))
    r, p = make(case["r"]), make(case["p"])
    t = None if case["ts"] is None else make(case["ts"])
    s_in = [snapshot(x, "C08/input") if x is not None else None
            for x in (r, p, t)]
    with guard(f"C08/{cls}/from_graphs"):
        rg = C[cls].from_graphs(r, p, t)
    from vp import ops as O
    with guard(f"C08/{cls}/read-only-use-before"):
        O.pre_use(rg, case.get("warm", 0))   # hashing / comparing / looking
    sg = snapshot(rg, f"C08/{cls}/from_graphs")
    for x, s0, nm in zip((r, p, t), s_in, ("reactant", "product", "ts")):
        if x is not None and snap_diff(snapshot(x, "C08/input"), s0, "exact"):
            raise Violation(f"C08/{cls}/from_graphs/input-{nm}-modified", "")
    R, P = set(mr.bonds), set(mp_.bonds)
    T = set(mt.bonds) if mt is not None else R | P
    want_roles = {"formed": P - R, "broken": R - P, "fleeting": T - (R | P)}
    with guard(f"C08/{cls}/role-sets"):
        got_roles = {"formed": {frozenset(b) for b in rg.get_formed_bonds()},
                     "broken": {frozenset(b) for b in rg.get_broken_bonds()},
                     "fleeting": {frozenset(b)
                                  for b in rg.get_fleeting_bonds()}}
    for k in want_roles:
        if got_roles[k] != want_roles[k]:
            raise Violation(
                f"C08/{cls}/from_graphs/{k}-bonds",
                f"{sorted(map(sorted, got_roles[k]))} expected "
                f"{sorted(map(sorted, want_roles[k]))}")
    if {frozenset(b) for b in rg.bonds} != T:
        raise Violation(f"C08/{cls}/from_graphs/bond-set", "")
    for nm, want in (("reactant", mr), ("product", mp_)):
        with guard(f"C08/{cls}/{nm}()"):
            got = getattr(rg, nm)()
        w = want.copy()
        if not stereo:
            w.cls = "MG"
            w.atom_stereo, w.bond_stereo = {}, {}
        try:
            gs = snapshot(got, f"C08/{cls}/{nm}()")
        except Violation as v:
            raise Violation(v.sig, f"{nm}(): {v.msg}")
        _same_molecule(f"{cls}/{nm}()-differs-from-input", gs, w)
    nchg = len(sg["atom_changes"]) + len(sg["bond_changes"])
    return bool(want_roles["formed"]) and bool(want_roles["broken"]) and (
        nchg > 0 or not stereo)


def check_reverse(ctx, case):
    mx = rc.require_valid(case["x"], strict=False)
    cls = mx.cls
    if cls not in ("CRG", "SCRG"):
        raise HarnessError("reverse: reaction classes only")
    x = rc.build(case["x"])
    s0 = snapshot(x, f"C08/{cls}/reverse/source")
    from vp import ops as O
    with guard(f"C08/{cls}/read-only-use-before"):
        O.pre_use(x, case.get("warm", 0))
    with guard(f"C08/{cls}/reverse_reaction"):
        rev = x.reverse_reaction()
    if rev is x:
        raise Violation(f"C08/{cls}/reverse/returns-receiver", "")
    if snap_diff(snapshot(x, f"C08/{cls}/reverse/source"), s0, "exact"):
        raise Violation(f"C08/{cls}/reverse/source-modified", "")
    sr = snapshot(rev, f"C08/{cls}/reverse")
    d = snap_diff(sr, mx.reverse().snapshot(), "exact")
    if d:
        raise Violation(f"C08/{cls}/reverse/{diff_kind(d)}",
                        f"reverse_reaction() vs model: {d}")
    # reactant / product swapped (through the library's own extraction)
    fully = all(d_[2] is not None for *_, d_ in mx.all_descs())
    from vp.model import validity_error
    clean = validity_error(mx, strict=False) is None
    if clean:
        for nm, other in (("reactant", "product"), ("product", "reactant")):
            with guard(f"C08/{cls}/reverse/{nm}()"):
                got = getattr(rev, nm)()
            gs = snapshot(got, f"C08/{cls}/reverse/{nm}()")
            d = snap_diff(gs, mx.state(other).snapshot(), "canon",
                          attrs=True)
            if d:
                raise Violation(
                    f"C08/{cls}/reverse/{nm}-is-not-old-{other}/"
                    f"{diff_kind(d)}", d)
    with guard(f"C08/{cls}/reverse-twice"):
        back = rev.reverse_reaction()
    d = snap_diff(snapshot(back, f"C08/{cls}/reverse-twice"), s0, "exact")
    if d:
        raise Violation(f"C08/{cls}/reverse-twice/{diff_kind(d)}",
                        f"x.reverse_reaction().reverse_reaction() vs x: {d}")
    roles = [at.get("reaction") for at in mx.bonds.values()]
    return ("formed" in roles and "broken" in roles
            and (cls == "CRG" or bool(mx.atom_changes or mx.bond_changes)))


def check_case(ctx, case):
    if case["mode"] == "reverse":
        return check_reverse(ctx, case)
    return check_from_graphs(ctx, case)


def pattern_labels(case):
    """which reactant/TS/product combination each atom hits"""
    if case["mode"] != "from_graphs":
        return []
    mr, mp_ = rc.model(case["r"]), rc.model(case["p"])
    mt = None if case["ts"] is None else rc.model(case["ts"])
    labs = set()

    def rel(d1, d2):
        if d1 is None and d2 is None:
            return "none"
        if d1 is None or d2 is None:
            return "one"
        if d1[0] != d2[0]:
            return "cls"
        return "same" if sym.equivalent(d1, d2) else "diff"

    for a in mr.atoms:
        r_, p_ = mr.atom_stereo.get(a), mp_.atom_stereo.get(a)
        t_ = mt.atom_stereo.get(a) if mt is not None else None
        labs.add(f"atom:rp={rel(r_, p_)},ts="
                 f"{'-' if mt is None else rel(t_, r_) + '/' + rel(t_, p_)}")
    for b in set(mr.bonds) | set(mp_.bonds):
        labs.add(f"bond:rp={rel(mr.bond_stereo.get(b), mp_.bond_stereo.get(b))}")
    return sorted(labs)


def run(ctx):
    def check(case):
        nt = check_case(ctx, case)
        labs = [f"mode:{case['mode']}"]
        if case["mode"] == "from_graphs":
            labs += [f"cls:{case['cls']}",
                     "ts:yes" if case["ts"] is not None else "ts:no"]
            labs += pattern_labels(case)
        else:
            labs.append(f"cls:{case['x']['cls']}")
        ctx.note(case, bool(nt), labs)

    ctx.hyp("c08", S.mapped(1800, gen), check, ctx.scale(6000, 250000),
            shrinker=shrink)
