"""C16 - Hash separates elementary differences used for de-duplication."""
from __future__ import annotations

from collections import Counter

from vp import recipes as rc
from vp import strategies as S
from vp.harness import HarnessError, Violation, guard
from vp.model import Model

ID = "C16"
LEVEL = "exploration"
QUICK_SHARDS = 4
MIN_NONTRIVIAL = 50
FUZZ_RUNS = 120000     # thorough tier: atheris executions (all children)
RULE = (
    "Family 1: pairs of same-class graphs (independent draws, renamed "
    "single-feature mutants, reaction vs its reverse; up to 30 atoms) whose "
    "multisets of (element, sorted elements of bonded neighbours) differ - "
    "for reaction classes taken for reactant, product and TS, any of the "
    "three differing qualifies; non-qualifying pairs are excluded and "
    "counted; a sixth of the pairs is hashed once more with the same 64-79 "
    "H2 molecules inserted in front of both graphs (> 128 atoms, the "
    "multisets still differ). Family 2: a random surrounding skeleton plus exactly one "
    "stereogenic unit - a Tetrahedral centre with four ligands of pairwise "
    "distinct elements (parity +1 vs -1), or a PlanarBond whose ends each "
    "carry two substituents of distinct elements (the two orientations). "
    "Oracle: hash(a) != hash(b). Non-trivial: family 1 pairs that agree on "
    "element multiset and bond count (only the neighbourhoods differ); all "
    "of family 2; distinct = SHA-1 of the case."
)
ASSUMPTIONS = [
    "equal 64-bit hashes of unequal inputs in these families are violations "
    "(accidental collisions ~5e-20 per pair are ignored), as the property "
    "stipulates",
]
TRUSTED = ["vp/model.py (reactant/product/ts bond sets)"]


def nbr_multiset(m: Model, state="ts"):
    adj = {a: [] for a in m.atoms}
    for b in m.bonds_in(state):
        x, y = tuple(b)
        adj[x].append(m.atoms[y]["atom_type"])
        adj[y].append(m.atoms[x]["atom_type"])
    return Counter((m.atoms[a]["atom_type"], tuple(sorted(v)))
                   for a, v in adj.items())


def family1_differs(ma, mb):
    """which state's multiset differs (or None)"""
    if ma.is_reaction:
        for st_ in ("reactant", "product", "ts"):
            if nbr_multiset(ma, st_) != nbr_multiset(mb, st_):
                return st_
        return None
    return "molecule" if nbr_multiset(ma) != nbr_multiset(mb) else None


def gen1(data: bytes):
    case = _gen1(data)
    # the last bytes of the tape are not reached by _gen1: a share of the
    # pairs is later padded with the same 64-79 H2 molecules in front
    if len(data) >= 2 and data[-2] % 6 == 0:
        case["pad"] = 64 + data[-1] % 16
    return case


def _padded(recipe, k):
    """the recipe with k H2 molecules inserted BEFORE its own atoms (the
    same addition to both graphs of a pair keeps their neighbourhood
    multisets different; the graphs get > 128 atoms)"""
    used = {a[0] for a in recipe["atoms"]}
    ids = [i for i in range(3 * 10**6, 3 * 10**6 + 2 * k + len(used) + 2)
           if i not in used][:2 * k]
    return {**recipe,
            "atoms": [[i, 1, {}] for i in ids] + list(recipe["atoms"]),
            "bonds": [[ids[2 * j], ids[2 * j + 1], None, {}]
                      for j in range(k)] + list(recipe["bonds"])}


def _gen1(data: bytes):
    from vp.props import c02
    tp = S.Tape(data)
    if tp.chance(50):
        cls = tp.pick(["CRG", "SCRG"])
        m = S.gen_model(tp, cls, nmax=12, nmin=2, p_role=120)
        return {"fam": 1, "src": "reverse", "a": S.shuffled_recipe(tp, m),
                "b": S.shuffled_recipe(tp, m.reverse()), "kind": None}
    if tp.chance(60):
        # "component soup": isolated atoms, diatomics and triatomics over few
        # elements; b differs from a in one element
        cls = tp.pick(["MG", "CRG", "SMG", "SCRG"])
        m = Model(cls)
        els = tp.shuffle([1, 17, 8, 6, 9, 7])[:2 + tp.below(3)]
        nid = 0
        for _ in range(1 + tp.below(5)):
            size = 1 + tp.below(3)
            ids = list(range(nid, nid + size))
            nid += size
            for a in ids:
                m.add_atom(a, tp.pick(els))
            for x, y in zip(ids, ids[1:]):
                m.add_bond(x, y)
        m2 = m.copy()
        a = tp.pick(list(m2.atoms))
        z = m2.atoms[a]["atom_type"]
        m2.atoms[a]["atom_type"] = tp.pick([e for e in [1, 17, 8, 6, 9, 7]
                                            if e != z])
        rb, _ = S.variant_from(m2, list(S.renaming(tp, m2.atoms).items()),
                               tp.below(1 << 30))
        return {"fam": 1, "src": "soup", "a": S.shuffled_recipe(tp, m),
                "b": rb, "kind": "element"}
    if tp.chance(40):
        # ligand redistribution: the same ligands dealt differently to a few
        # centres (2 CH2F2 vs CH4 + CF4): only multiplicities differ
        cls = tp.pick(["MG", "SMG", "CRG", "SCRG"])
        zc = tp.pick([6, 14, 5, 7, 15])
        deg = tp.pick([2, 3, 4, 4])
        ncen = 2 + tp.below(2)
        lig_el = tp.shuffle([1, 9, 17, 35, 8])[:2 + tp.below(2)]
        ligs = [tp.pick(lig_el) for _ in range(ncen * deg)]
        if tp.chance(128):
            ligs = [lig_el[(i // (deg // 2 or 1)) % 2]
                    for i in range(ncen * deg)]     # even multiplicities

        def deal(order):
            m = Model(cls)
            nid = 0
            for c in range(ncen):
                m.add_atom(nid, zc)
                cen = nid
                nid += 1
                for z in order[c * deg:(c + 1) * deg]:
                    m.add_atom(nid, z)
                    m.add_bond(cen, nid)
                    nid += 1
            return m

        m1 = deal(ligs)
        m2 = deal(sorted(ligs) if tp.chance(128) else tp.shuffle(ligs))
        rb, _ = S.variant_from(m2, list(S.renaming(tp, m2.atoms).items()),
                               tp.below(1 << 30))
        return {"fam": 1, "src": "redistribution",
                "a": S.shuffled_recipe(tp, m1), "b": rb, "kind": None}
    if tp.chance(40):
        # degenerate exchange: X-Y + X-Y -> X-Y + X-Y (reactant and product
        # alike, only the transition structure tells it from two idle X-Y),
        # also against the other pairing of partners
        cls = tp.pick(["CRG", "SCRG", "CRG"])
        zx, zy = tp.shuffle([1, 17, 9, 6, 8, 35])[:2]
        sub = tp.pick([None, 1, 9])

        def build(kind):
            m = Model(cls)
            for i, z in enumerate((zx, zy, zx, zy)):
                m.add_atom(i, z)
            if sub is not None and zx in (6,):
                for j, c in enumerate((0, 2)):
                    for t in range(3):
                        m.add_atom(10 + 3 * j + t, sub)
                        m.add_bond(c, 10 + 3 * j + t)
            if kind == "idle":
                m.add_bond(0, 1)
                m.add_bond(2, 3)
            elif kind == "exchange":
                m.add_bond(0, 1, "broken")
                m.add_bond(2, 3, "broken")
                m.add_bond(0, 3, "formed")
                m.add_bond(2, 1, "formed")
            else:                       # spectator contact only
                m.add_bond(0, 1)
                m.add_bond(2, 3)
                m.add_bond(0, 3, "fleeting")
            return m

        k1, k2 = tp.shuffle(["idle", "exchange", "contact"])[:2]
        m1, m2 = build(k1), build(k2)
        rb, _ = S.variant_from(m2, list(S.renaming(tp, m2.atoms).items()),
                               tp.below(1 << 30))
        return {"fam": 1, "src": "degenerate-exchange",
                "a": S.shuffled_recipe(tp, m1), "b": rb, "kind": None}
    case = c02.gen_pair(tp, sources=(4, 6, 0, 4, 0))
    case["fam"] = 1
    return case


DISTINCT = [1, 9, 17, 35, 53, 8, 7, 16, 6]


def gen2(data: bytes):
    tp = S.Tape(data)
    bare = tp.chance(40)
    m = S.skeleton(tp, "SMG", nmax=0 if bare else 24, wide=True)
    used = set(m.atoms)
    ids = [i for i in S.draw_ids(tp, 12, 2) if i not in used][:8]
    if len(ids) < 8:
        ids = [max(list(used) + [0]) + 1 + i for i in range(8)]
    sur = list(m.atoms)
    unit = tp.pick(["tetrahedral", "planar"])

    def attach(x):
        if sur and tp.chance(140):
            m.add_bond(x, tp.pick(sur))

    if unit == "tetrahedral":
        c, ligs = ids[0], ids[1:5]
        m.add_atom(c, tp.pick([6, 14, 15, 7, 32]))
        els = tp.shuffle(DISTINCT)[:4]
        for x, z in zip(ligs, els):
            m.add_atom(x, z)
            m.add_bond(c, x)
            attach(x)
        order = tp.shuffle(ligs)
        d1 = ["Tetrahedral", [c] + order, 1]
        d2 = ["Tetrahedral", [c] + order, -1]
        ma, mb = m.copy(), m.copy()
        ma.set_atom_stereo(d1)
        mb.set_atom_stereo(d2)
    else:
        x, y = ids[0], ids[1]
        m.add_atom(x, tp.pick([6, 7, 14]))
        m.add_atom(y, tp.pick([6, 7, 14]))
        m.add_bond(x, y)
        ex = tp.shuffle(DISTINCT)[:2]
        ey = tp.shuffle(DISTINCT)[:2]
        sx, sy = ids[2:4], ids[4:6]
        for s, z in zip(sx + sy, ex + ey):
            m.add_atom(s, z)
        for s in sx:
            m.add_bond(x, s)
            attach(s)
        for s in sy:
            m.add_bond(y, s)
            attach(s)
        # attaching may have created a bond between substituents and the
        # other end; such cases are filtered by validity in check
        d1 = ["PlanarBond", [sx[0], sx[1], x, y, sy[0], sy[1]], 0]
        d2 = ["PlanarBond", [sx[0], sx[1], x, y, sy[1], sy[0]], 0]
        ma, mb = m.copy(), m.copy()
        ma.set_bond_stereo(d1)
        mb.set_bond_stereo(d2)
    if sur and tp.chance(80):
        # descriptors with unspecified parity elsewhere in the molecule
        # (places that could hold stereo but whose configuration is open):
        # the same in both isomers
        core = set(ids[:6])
        for a in tp.shuffle(sur)[:1 + tp.below(3)]:
            d = S.atom_desc(tp, a, sorted(ma.neighbours(a)), none_parity=256,
                            allow2=False)
            if d is not None and not (set(d[1]) & core):
                ma.set_atom_stereo(d)
                mb.set_atom_stereo(d)
        for b in tp.shuffle(sorted(ma.bonds, key=sorted))[:2 + tp.below(3)]:
            p_, q_ = sorted(b)
            if {p_, q_} & core:
                continue
            d = S.bond_desc(tp, p_, q_, sorted(ma.neighbours(p_) - {q_}),
                            sorted(ma.neighbours(q_) - {p_}),
                            none_parity=256, p_atrop=0)
            if d is not None and not (set(d[1]) & core):
                ma.set_bond_stereo(d)
                mb.set_bond_stereo(d)
    rb, _ = S.variant_from(mb, list(S.renaming(tp, mb.atoms).items()),
                           tp.below(1 << 30))
    return {"fam": 2, "unit": unit, "a": S.shuffled_recipe(tp, ma), "b": rb}


def _single_unit_ok(case, ma, mb):
    """family 2 membership, re-checked on the (possibly shrunk) case"""
    da = [x for x in ma.all_descs() if x[3][2] is not None]
    db = [x for x in mb.all_descs() if x[3][2] is not None]
    # any further descriptor has unspecified parity (no configuration)
    if len(da) != 1 or len(db) != 1 or ma.cls != "SMG" or mb.cls != "SMG":
        return False
    d = da[0][3]
    if d[0] == "Tetrahedral":
        ligs = d[1][1:]
        if None in ligs or d[2] not in (1, -1):
            return False
        els = [ma.atoms[a]["atom_type"] for a in ligs]
        return len(set(els)) == 4
    if d[0] == "PlanarBond":
        t = d[1]
        if None in t:
            return False
        e = [ma.atoms[a]["atom_type"] for a in t]
        return e[0] != e[1] and e[4] != e[5]
    return False


def shrink(case):
    if case["fam"] == 1:
        for cand in rc.shrink_candidates(case["a"]):
            yield {**case, "a": cand}
        for cand in rc.shrink_candidates(case["b"]):
            yield {**case, "b": cand}
    else:
        # remove the same surrounding atom from both sides is not possible
        # (b is renamed); shrink each side, membership is re-checked
        for cand in rc.shrink_candidates(case["a"]):
            yield {**case, "a": cand}
        for cand in rc.shrink_candidates(case["b"]):
            yield {**case, "b": cand}


def check_case(ctx, case):
    ma = rc.require_valid(case["a"])
    mb = rc.require_valid(case["b"])
    if ma.cls != mb.cls:
        raise HarnessError("C16: same class required")
    if case["fam"] == 1:
        which = family1_differs(ma, mb)
        if which is None:
            raise HarnessError("C16 family 1: neighbourhood multisets equal")
        sig = f"C16/{ma.cls}/family1/{which}-neighbourhoods-differ/same-hash"
    else:
        from vp import iso
        if not _single_unit_ok(case, ma, mb):
            raise HarnessError("C16 family 2: not a single-unit pair")
        # b must be the other stereoisomer of a: same graph without stereo,
        # different with stereo (bounded brute force only on small cases)
        if len(ma.atoms) <= 9:
            if not iso.exists(ma, mb, stereo=False, changes=False) or \
                    iso.exists(ma, mb):
                raise HarnessError("C16 family 2: not the two stereoisomers")
        unit = next(x for x in ma.all_descs() if x[3][2] is not None)[3][0]
        sig = f"C16/SMG/family2/{unit}/stereoisomers-same-hash"
    a, b = rc.build(case["a"]), rc.build(case["b"])
    with guard(f"C16/{ma.cls}/hash"):
        ha, hb = hash(a), hash(b)
    if ha == hb:
        raise Violation(sig, f"both hash to {ha}")
    if case["fam"] == 1 and case.get("pad"):
        pa, pb = (rc.build(_padded(case[x], case["pad"])) for x in "ab")
        with guard(f"C16/{ma.cls}/hash-padded"):
            hpa, hpb = hash(pa), hash(pb)
        if hpa == hpb:
            raise Violation(sig.replace("/family1/", "/family1-padded/"),
                            f"with {case['pad']} H2 molecules in front of "
                            f"both graphs both hash to {hpa}")
    if case["fam"] == 2 and len(list(ma.all_descs())) == 1:
        # the hash-based stereoisomer generator must find both isomers of
        # the unit when its parity is left open
        from stereomolgraph.experimental import generate_stereoisomers
        mo = ma.copy()
        for table in (mo.atom_stereo, mo.bond_stereo):
            for k_, d in table.items():
                table[k_] = (d[0], d[1], None)
        g = rc.build(rc.from_model(mo))
        with guard("C16/SMG/family2/generate_stereoisomers"):
            isomers = list(generate_stereoisomers(g))
        hs = {hash(x) for x in isomers}
        if len(isomers) != 2 or len(hs) != 2 or hs != {ha, hb}:
            raise Violation(
                f"C16/SMG/family2/{unit}/generate_stereoisomers-count",
                f"{len(isomers)} isomers generated for one open stereogenic "
                f"unit (hashes {sorted(hs)}; expected the two hashes "
                f"{sorted((ha, hb))})")


def run(ctx):
    def check1(case):
        ma, mb = rc.model(case["a"]), rc.model(case["b"])
        if ma.cls != mb.cls:
            ctx.exclude("family1:cross-class")
            return
        which = family1_differs(ma, mb)
        if which is None:
            ctx.exclude("family1:multisets-equal")
            return
        same_coarse = (
            sorted(at["atom_type"] for at in ma.atoms.values())
            == sorted(at["atom_type"] for at in mb.atoms.values())
            and len(ma.bonds) == len(mb.bonds))
        ctx.note(case, same_coarse,
                 ["family1", f"cls:{ma.cls}", f"differs:{which}",
                  f"src:{case['src']}"])
        check_case(ctx, case)

    ctx.hyp("c16-f1", S.mapped(1200, gen1), check1,
            ctx.scale(7000, 300000), shrinker=shrink)

    def check2(case):
        try:
            ma = rc.require_valid(case["a"])
            mb = rc.require_valid(case["b"])
        except HarnessError:
            ctx.exclude("family2:attachment-broke-validity")
            return
        if not _single_unit_ok(case, ma, mb):
            ctx.exclude("family2:not-single-unit")
            return
        ctx.note(case, True, ["family2", f"unit:{case['unit']}",
                              f"n:{min(len(ma.atoms), 30)//5*5}+"])
        check_case(ctx, case)

    ctx.hyp("c16-f2", S.mapped(1200, gen2), check2,
            ctx.scale(3000, 120000), shrinker=shrink)
