"""C06 - enantiomer() is the mirror image."""
from __future__ import annotations

from vp import iso
from vp import recipes as rc
from vp import strategies as S
from vp import symmetry as sym
from vp.harness import HarnessError, Violation, guard
from vp.model import snap_diff
from vp.props.c09 import diff_kind
from vp.snapshot import snapshot

ID = "C06"
LEVEL = "exploration"
QUICK_SHARDS = 4
MIN_NONTRIVIAL = 50
FUZZ_RUNS = 160000     # thorough tier: atheris executions (all children)
RULE = (
    "Fully specified stereo molecule and stereo reaction recipes from "
    "weighted families: general decorated skeletons; symmetric doubles whose "
    "halves carry identical (C2-type, possibly chiral) or mirrored (meso / "
    "achiral) decorations; graphs whose only stereo element is an "
    "AtropBond; achiral descriptors only; reaction graphs with several atom "
    "and bond stereo changes; before the call the graph may be hashed / "
    "compared / viewed, and descriptors of the sibling classes over the same "
    "atom tuples may be compared and mirrored (process-level memos). "
    "Oracle: (1) snapshot(g.enantiomer()) equals "
    "the model's enantiomer (atoms, bonds, attributes exact; every chiral "
    "descriptor, static or in any role of any change, atom- or bond-centred, "
    "equivalent to the inverted one; achiral ones untouched); (2) g is not "
    "modified; (3) enantiomer twice is labelled-identical to g; (4) (g == "
    "g.enantiomer()) equals the brute-force search for a bijection onto the "
    "all-inverted model. Non-trivial: >= 1 chiral descriptor; both "
    "outcomes of (4) are counted; distinct = SHA-1."
)
ASSUMPTIONS = ["brute force bounded (n <= 20, 150k nodes); cut-offs skip "
               "clause (4) and are counted"]
TRUSTED = ["vp/model.py enantiomer", "vp/iso.py", "vp/symmetry.py"]


def gen(data: bytes):
    tp = S.Tape(data)
    fam = tp.weighted([4, 4, 2, 2, 3])
    cls = "SCRG" if fam == 4 or tp.chance(70) else "SMG"
    if fam == 0:
        m = S.gen_model(tp, cls, nmax=9, nmin=2, kmax=3, attrs=tp.chance(80),
                        p_atom=200, p_bond=110)
        name = "general"
    elif fam == 1:
        m, mirror = S.symmetric_double(tp, cls, nhalf=2 + tp.below(3))
        name = "double-mirrored" if mirror else "double-identical"
    elif fam == 2:
        m = S.gen_model(tp, cls, nmax=8, nmin=4, kmax=2, p_atom=0,
                        p_bond=0, p_change=0, family=tp.pick(
                            ["tree", "cycle", "double"]))
        # one AtropBond as the only stereo element
        for b in sorted(m.bonds, key=sorted):
            x, y = sorted(b)
            if cls == "SCRG" and any(
                    "reaction" in m.bonds[frozenset((c, z))]
                    for c in (x, y) for z in m.neighbours(c)):
                continue
            d = S.bond_desc(tp, x, y, sorted(m.neighbours(x) - {y}),
                            sorted(m.neighbours(y) - {x}), p_atrop=256)
            if d is not None:
                m.set_bond_stereo(d)
                break
        name = "atrop-only"
    elif fam == 3:
        m = S.gen_model(tp, cls, nmax=8, nmin=3, kmax=2, p_atom=220,
                        p_bond=140)
        # keep achiral descriptors only
        m.atom_stereo = {k: d for k, d in m.atom_stereo.items()
                         if sym.ACHIRAL[d[0]]}
        m.bond_stereo = {k: d for k, d in m.bond_stereo.items()
                         if sym.ACHIRAL[d[0]]}
        m.atom_changes, m.bond_changes = {}, {}
        name = "achiral-only"
    else:
        m = S.gen_model(tp, "SCRG", nmax=9, nmin=3, kmax=3, p_role=130,
                        p_change=220)
        name = "reaction-changes"
    return {"fam": name, "a": S.shuffled_recipe(tp, m),
            "warm": tp.pick([0, 0, 1, 2, 3]),
            "sibling_use": tp.chance(110)}


def shrink(case):
    for cand in rc.shrink_candidates(case["a"]):
        yield {**case, "a": cand}


def check_case(ctx, case):
    ma = rc.require_valid(case["a"])
    cls = ma.cls
    if cls not in ("SMG", "SCRG"):
        raise HarnessError("C06: stereo classes only")
    if any(d[2] is None for *_, d in ma.all_descs()):
        raise HarnessError("C06: fully specified parities")
    g = rc.build(case["a"])
    s0 = snapshot(g, f"C06/{cls}/source")
    from vp import ops as O
    with guard(f"C06/{cls}/read-only-use-before"):
        if case.get("sibling_use"):
            O.sibling_use([d for *_, d in ma.all_descs()])
        O.pre_use(g, case.get("warm", 0))
    with guard(f"C06/{cls}/enantiomer"):
        e = g.enantiomer()
    if e is g:
        raise Violation(f"C06/{cls}/returns-receiver", "")
    d = snap_diff(snapshot(g, f"C06/{cls}/source"), s0, "exact")
    if d:
        raise Violation(f"C06/{cls}/source-modified/{diff_kind(d)}", d)
    se = snapshot(e, f"C06/{cls}/enantiomer")
    me = ma.enantiomer()
    d = snap_diff(se, me.snapshot(), "canon")
    if d:
        which = diff_kind(d)
        raise Violation(f"C06/{cls}/not-the-mirror-image/{which}",
                        f"enantiomer() vs all chiral descriptors inverted: "
                        f"{d}")
    # the mirror image is an object of its own: renaming it in place must
    # leave the original alone (and vice versa)
    e_ren = None
    with guard(f"C06/{cls}/enantiomer-for-renaming"):
        e_ren = g.enantiomer()
    shift = {a: (a if isinstance(a, int) else 0) + 70001 + k
             for k, a in enumerate(ma.atoms)}
    with guard(f"C06/{cls}/rename-the-mirror-image-in-place"):
        e_ren.relabel_atoms(dict(shift), copy=False)
    d = snap_diff(snapshot(g, f"C06/{cls}/source"), s0, "exact")
    if d:
        raise Violation(f"C06/{cls}/source-modified-through-mirror-image/"
                        f"{diff_kind(d)}", d)
    with guard(f"C06/{cls}/enantiomer-twice"):
        ee = e.enantiomer()
    d = snap_diff(snapshot(ee, f"C06/{cls}/twice"), s0, "canon")
    if d:
        raise Violation(f"C06/{cls}/twice-not-identity/{diff_kind(d)}", d)
    try:
        want = iso.exists(ma, me)
    except iso.BudgetExceeded:
        ctx.exclude("oracle-budget-exceeded")
        return None
    with guard(f"C06/{cls}/eq-enantiomer"):
        got = (g == e)
        got2 = (e == g)
    if got != want or got2 != want:
        raise Violation(
            f"C06/{cls}/eq-enantiomer/"
            f"{'equal-but-chiral' if got else 'unequal-but-achiral'}",
            f"g == g.enantiomer() is {got}/{got2}; a structure-preserving "
            f"bijection onto the mirror image "
            f"{'exists' if want else 'does not exist'}")
    return want


def run(ctx):
    def check(case):
        ma = rc.model(case["a"])
        want = check_case(ctx, case)
        chiral = [d for *_, d in ma.all_descs() if not sym.ACHIRAL[d[0]]]
        labs = [f"fam:{case['fam']}", f"cls:{ma.cls}"]
        if want is not None:
            if not chiral:
                labs.append("no-chiral-descriptor")
            else:
                labs.append("achiral-with-centres" if want else "chiral")
        ctx.note(case, bool(chiral), labs)

    ctx.hyp("c06", S.mapped(1500, gen), check, ctx.scale(6000, 250000),
            shrinker=shrink)
