"""C20 - XYZ text round-trips and distance connectivity is well-formed."""
from __future__ import annotations

import math
import os
import tempfile

from vp import geom as G
from vp import strategies as S
from vp.harness import HarnessError, Violation, guard, VERIF

ID = "C20"
LEVEL = "exploration"
QUICK_SHARDS = 4
MIN_NONTRIVIAL = 50
RULE = (
    "(round trip) geometries with 1-60 atoms over all 118 elements, "
    "coordinates in [-1e6, 1e6] with emphasis on 0, -0.0, tiny, +-1e6 and "
    "many digits; comment None / empty / whitespace / arbitrary unicode "
    "without newline characters (incl. '#', quotes, commas, digits). "
    "Oracle: Geometry.from_xyz(geo.xyz_str(comment)) and from_xyz_file of "
    "the same text reproduce the element tuple and every coordinate within "
    "5.1e-9. (connectivity) element lists over all 118 with consecutive "
    "atoms placed at (1 +- eps) * 1.2 * (r_i + r_j), eps log-uniform in [3e-6, 0.3], translations up to 1e6 A, "
    "other pairs wherever they fall; oracle from a pinned copy of the "
    "radii: BondsFromDistance().array is symmetric, zero on the diagonal "
    "and 1 exactly on pairs closer than the cutoff (pairs within 1e-9 "
    "relative of it excluded); MolGraph.from_geometry has exactly those "
    "bonds; both unchanged by rotation + translation (all pairs >= 1e-6 "
    "relative away from their cutoff) and by atom permutation. Non-trivial: "
    "round trip with |x| > 1e3 or > 8 significant decimals; connectivity "
    "with a pair within 5 % on each side of its cutoff; distinct = SHA-1."
)
ASSUMPTIONS = [
    "comment is a single line (no \\n); a carriage return inside the comment "
    "is kept for the string route and skipped for the file route, where "
    "text-mode reading treats it as a line break by platform convention",
    "radii: pinned copy of the table shipped with the pinned commit",
]
TRUSTED = ["math.dist", "vp/geom.py pinned radii"]

COORD_SPECIAL = [0.0, -0.0, 1e-9, -1e-9, 4.9e-9, 1e6, -1e6, 999999.99999999,
                 0.123456789012345, -123.456789012, 1e-300, 5e-9,
                 1.00000000499, 12345.678901234567]


def draw_coord(tp):
    k = tp.weighted([3, 3, 2, 2])
    if k == 0:
        return COORD_SPECIAL[tp.below(len(COORD_SPECIAL))]
    if k == 1:
        return (tp.below(20001) - 10000) / 1000.0
    if k == 2:
        return (tp.below(2 * 10**9 + 1) - 10**9) / 1000.0
    m = tp.below(10**12) / 10**12
    e = tp.below(13) - 6
    return (1 if tp.chance(128) else -1) * m * 10.0 ** e


COMMENT_POOL = [None, "", " ", "   \t ", "comment", "# not a comment",
                "12 3.0 4.5 6.7", "C 0.0 0.0 0.0", "a,b;c'd\"e",
                "é中文 \U0001F600", "energy = -1.5e+03 #tag",
                "\t", "3", "\x0b\x0c", " x ", "\x85", " lead"]


def draw_comment(tp):
    if tp.chance(150):
        return tp.pick(COMMENT_POOL)
    n = tp.below(20)
    chars = []
    for _ in range(n):
        c = tp.below(0x3000)
        if c == 10 or 0xD800 <= c <= 0xDFFF:
            c = 32
        chars.append(chr(c))
    return "".join(chars)


def gen_rt(data: bytes):
    tp = S.Tape(data)
    n = 1 + (tp.below(4) if tp.chance(100) else tp.below(60))
    elems = [1 + tp.below(118) for _ in range(n)]
    coords = [[draw_coord(tp) for _ in range(3)] for _ in range(n)]
    case = {"part": "roundtrip", "elements": elems, "coords": coords,
            "comment": draw_comment(tp)}
    if tp.chance(70):
        case["then_move"] = [round(draw_coord(tp) % 50.0, 6) for _ in range(3)]
    return case


def gen_conn(data: bytes):
    tp = S.Tape(data)
    n = 2 + tp.below(12)
    wide = tp.chance(128)
    elems = [(1 + tp.below(118)) if wide else tp.pick([1, 6, 7, 8, 9, 17, 15])
             for _ in range(n)]
    coords = [(0.0, 0.0, 0.0)]
    for i in range(1, n):
        prev = tp.below(i)
        # log-uniform 1e-8 .. 0.3 (the check itself requires >= 1e-9)
        eps = 10 ** (-(tp.below(7501) / 1000.0) - 0.52)
        eps = max(1e-8, min(eps, 0.3))
        f = (1 - eps) if tp.chance(128) else (1 + eps)
        d = f * G.cutoff(elems[prev], elems[i])
        if tp.chance(6):
            coords.append(coords[prev])     # two atoms in the same place
            continue
        coords.append(G.add(coords[prev], G.scale(G.draw_unit(tp), d)))
    return {"part": "connectivity", "elements": elems,
            "coords": [list(c) for c in coords],
            "quat": list(G.draw_quat(tp)),
            "shift": list(G.draw_vec(tp, tp.pick([50.0, 1e3, 1e5, 9.9e5]))),
            "perm": tp.shuffle(range(n)),
            "custom_first": tp.pick([None, None, 0.9, 1.0, 1.5]),
            "reuse": tp.chance(100)}


def gen(data: bytes):
    return gen_rt(data) if data[0] % 2 else gen_conn(data[1:])


def shrink(case):
    n = len(case["elements"])
    for i in range(n - 1, -1, -1):
        c = {**case, "elements": case["elements"][:i] + case["elements"][i+1:],
             "coords": case["coords"][:i] + case["coords"][i + 1:]}
        if "perm" in case:
            c["perm"] = [p if p < i else p - 1 for p in case["perm"]
                         if p != i]
        yield c
    if case.get("comment") not in (None, "x"):
        yield {**case, "comment": None}
        yield {**case, "comment": "x"}
    if case["part"] == "roundtrip":
        for i, row in enumerate(case["coords"]):
            if any(v != 0.0 for v in row):
                cc = [list(r) for r in case["coords"]]
                cc[i] = [0.0, 0.0, 0.0]
                yield {**case, "coords": cc}


def _geometry(elems, coords):
    import numpy as np
    from stereomolgraph.coords import Geometry
    return Geometry(list(elems), np.array(coords, dtype=float).reshape(-1, 3))


def check_roundtrip(ctx, case):
    elems, coords, comment = case["elements"], case["coords"], case["comment"]
    n = len(elems)
    if n < 1 or len(coords) != n:
        raise HarnessError("round trip: n >= 1")
    if comment is not None and "\n" in comment:
        raise HarnessError("comment must be one line")
    if any(not math.isfinite(v) or abs(v) > 1e6 for r in coords for v in r):
        raise HarnessError("coordinate out of range")
    tag = "n=1" if n == 1 else "n>1"
    ck = ("none" if comment is None else "blank" if not comment.strip()
          else "text")
    from stereomolgraph.coords import Geometry
    geo = _geometry(elems, coords)
    with guard(f"C20/roundtrip/xyz_str/{tag}"):
        text = geo.xyz_str(comment) if comment is not None else geo.xyz_str()

    def compare(back, via):
        got_e = tuple(int(z) for z in back.atom_types)
        if got_e != tuple(elems):
            raise Violation(f"C20/roundtrip/{via}/elements-differ/{tag}",
                            f"{got_e[:8]} vs {tuple(elems)[:8]}")
        bc = back.coords
        if tuple(bc.shape) != (n, 3):
            raise Violation(f"C20/roundtrip/{via}/shape/{tag}",
                            f"{bc.shape}")
        for i in range(n):
            for j in range(3):
                if abs(float(bc[i][j]) - coords[i][j]) > 5.1e-9:
                    raise Violation(
                        f"C20/roundtrip/{via}/coordinate-differs/{tag}",
                        f"atom {i} axis {j}: wrote {coords[i][j]!r}, read "
                        f"{float(bc[i][j])!r}")

    with guard(f"C20/roundtrip/from_xyz/{tag}/comment-{ck}"):
        back = Geometry.from_xyz(text)
    compare(back, "from_xyz")
    if case.get("then_move"):
        # the same Geometry object, moved through its public coords array,
        # written once more
        import numpy as np
        dx = [float(v) for v in case["then_move"]]
        with guard(f"C20/roundtrip/move-and-write-again/{tag}"):
            geo.coords += np.array(dx)
            text2 = geo.xyz_str("again")
            back3 = Geometry.from_xyz(text2)
        moved_ = [[c[k] + dx[k] for k in range(3)] for c in coords]
        if any(abs(v) > 1e6 for r in moved_ for v in r):
            pass
        else:
            bc = back3.coords
            for i in range(n):
                for j in range(3):
                    if abs(float(bc[i][j]) - moved_[i][j]) > 5.1e-9 + \
                            1e-15 * abs(moved_[i][j]):
                        raise Violation(
                            f"C20/roundtrip/written-again-after-move/"
                            f"coordinate-differs/{tag}",
                            f"atom {i} axis {j}: object holds "
                            f"{moved_[i][j]!r}, text gives "
                            f"{float(bc[i][j])!r}")
    d = os.path.join(VERIF, "scratch")
    os.makedirs(d, exist_ok=True)
    fd, path = tempfile.mkstemp(suffix=".xyz", dir=d)
    try:
        with os.fdopen(fd, "w", encoding="utf-8", newline="") as fh:
            fh.write(text)
        import locale
        if (locale.getpreferredencoding(False) or "").lower().replace(
                "-", "") == "utf8" and "\r" not in (comment or ""):
            with guard(f"C20/roundtrip/from_xyz_file/{tag}/comment-{ck}"):
                back2 = Geometry.from_xyz_file(path)
            compare(back2, "from_xyz_file")
    finally:
        os.unlink(path)
    big = any(abs(v) > 1e3 for r in coords for v in r)
    digits = any(abs(v * 1e8 - round(v * 1e8)) > 1e-3 for r in coords
                 for v in r if abs(v) < 1e6)
    return big or digits


def _bond_relation(elems, coords, margin):
    """-> (set of bonded index pairs, near) or None if a pair is within
    ``margin`` (relative) of its cutoff"""
    n = len(elems)
    bonds = set()
    near_in = near_out = False
    for i in range(n):
        for j in range(i + 1, n):
            d = math.dist(coords[i], coords[j])
            c = G.cutoff(elems[i], elems[j])
            rel = (d - c) / c
            if abs(rel) < margin:
                return None
            if rel < 0:
                bonds.add((i, j))
                if rel > -0.05:
                    near_in = True
            elif rel < 0.05:
                near_out = True
    return bonds, (near_in and near_out)


def check_connectivity(ctx, case):
    import numpy as np
    elems = case["elements"]
    coords = [tuple(c) for c in case["coords"]]
    n = len(elems)
    if n < 1:
        raise HarnessError("connectivity: n >= 1")
    # exactness: each geometry is judged by its own coordinates down to a
    # relative distance of 1e-9 from the cutoff (float64 leaves ~1e-15);
    # invariance under motion is only asserted when no pair of the original
    # is within 1e-6 (moving coordinates of size 1e6 costs ~1e-10)
    rel = _bond_relation(elems, coords, 1e-9)
    if rel is None:
        ctx.exclude("pair-too-close-to-cutoff")
        return None
    bonds, near = rel
    robust = _bond_relation(elems, coords, 1e-6) is not None
    from stereomolgraph import MolGraph
    from stereomolgraph.coords import BondsFromDistance

    factor = case.get("custom_first")
    # one instance and one (mutable) list object for all three observations:
    # the caller is free to reuse both and to edit the list in between
    shared = BondsFromDistance() if case.get("reuse") else None
    types_obj = []

    def observe(es, cs, stage):
        arr = np.array(cs, dtype=float).reshape(-1, 3)
        if shared is not None:
            types_obj[:] = list(es)
            with guard(f"C20/connectivity/{stage}/array-reused-instance"):
                m2 = shared.array(arr, types_obj)
            m2 = [[int(x) for x in row] for row in m2]
        else:
            m2 = None
        if factor:
            # an instance with its own criterion, used first, must not
            # influence what the default criterion answers afterwards
            with guard(f"C20/connectivity/{stage}/custom-instance"):
                BondsFromDistance(
                    lambda pair: float(factor) * sum(
                        G.RADII[int(a)] for a in pair)).array(arr, list(es))
        with guard(f"C20/connectivity/{stage}/array"):
            mat = BondsFromDistance().array(arr, list(es))
        mat = [[int(x) for x in row] for row in mat]
        if m2 is not None and m2 != mat:
            raise Violation(
                f"C20/connectivity/{stage}/reused-instance-differs",
                "BondsFromDistance instance used before, same list object "
                "edited in place: result differs from a fresh instance")
        k = len(es)
        for i in range(k):
            if mat[i][i] != 0:
                raise Violation(f"C20/connectivity/{stage}/self-bond",
                                f"atom {i}")
            for j in range(k):
                if mat[i][j] != mat[j][i]:
                    raise Violation(f"C20/connectivity/{stage}/asymmetric",
                                    f"{i},{j}")
                if mat[i][j] not in (0, 1):
                    raise Violation(f"C20/connectivity/{stage}/not-0-1", "")
        with guard(f"C20/connectivity/{stage}/from_geometry"):
            g = MolGraph.from_geometry(_geometry(es, cs))
        gb = {tuple(sorted(b)) for b in g.bonds}
        if any(len(b) != 2 for b in g.bonds):
            raise Violation(f"C20/connectivity/{stage}/graph-self-bond", "")
        mb = {(i, j) for i in range(k) for j in range(i + 1, k)
              if mat[i][j] == 1}
        if gb != mb:
            raise Violation(
                f"C20/connectivity/{stage}/graph-differs-from-array",
                f"{sorted(gb ^ mb)}")
        if list(g.atoms) != list(range(k)) or tuple(
                int(z) for z in g.atom_types) != tuple(es):
            raise Violation(f"C20/connectivity/{stage}/atoms", "")
        return mb

    got = observe(elems, coords, "original")
    if got != bonds:
        extra, missing = sorted(got - bonds), sorted(bonds - got)
        i, j = (extra or missing)[0]
        d = math.dist(coords[i], coords[j])
        raise Violation(
            "C20/connectivity/original/"
            f"{'bonded-beyond-cutoff' if extra else 'not-bonded-below-cutoff'}",
            f"pair ({i},{j}) elements {elems[i]},{elems[j]}: distance "
            f"{d:.6f}, cutoff {G.cutoff(elems[i], elems[j]):.6f}")
    R = G.quat_matrix(case["quat"])
    moved = G.transform(coords, R, tuple(case["shift"]))
    if robust:
        got = observe(elems, moved, "rigid-motion")
        if got != bonds:
            raise Violation("C20/connectivity/rigid-motion/bonds-change",
                            f"{sorted(got ^ bonds)}")
    else:
        ctx.classes["connectivity:within-1e-6-of-a-cutoff"] += 1
    perm = case["perm"]
    if sorted(perm) != list(range(n)):
        raise HarnessError("perm")
    pe = [elems[p] for p in perm]
    pc = [coords[p] for p in perm]
    got = observe(pe, pc, "permuted")
    back = {tuple(sorted((perm[i], perm[j]))) for i, j in got}
    if back != bonds:
        raise Violation("C20/connectivity/permuted/bonds-change",
                        f"{sorted(back ^ bonds)}")
    return near


def check_case(ctx, case):
    if case["part"] == "roundtrip":
        return check_roundtrip(ctx, case)
    return check_connectivity(ctx, case)


def run(ctx):
    def check_rt(case):
        nt = check_roundtrip(ctx, case)
        c = case["comment"]
        ctx.note(case, bool(nt), [
            "part:roundtrip", f"n:{min(len(case['elements']), 60)//10*10}+",
            "n=1" if len(case["elements"]) == 1 else "n>1",
            "comment:none" if c is None else "comment:blank"
            if not c.strip() else "comment:text"])

    ctx.hyp("c20-rt", S.mapped(2500, gen_rt), check_rt,
            ctx.scale(6000, 200000), shrinker=shrink)

    def check_cn(case):
        near = check_connectivity(ctx, case)
        if near is None:
            return
        ctx.note(case, bool(near), ["part:connectivity",
                                    f"n:{len(case['elements'])}"])

    ctx.hyp("c20-conn", S.mapped(1500, gen_conn), check_cn,
            ctx.scale(5000, 200000), shrinker=shrink)
