"""C05 - Isomorphism enumeration is exact."""
from __future__ import annotations

import itertools

from vp import iso
from vp import recipes as rc
from vp import strategies as S
from vp.harness import HarnessError, Violation, guard
from vp.model import Model

ID = "C05"
LEVEL = "exploration"
QUICK_SHARDS = 4
MIN_NONTRIVIAL = 50
FUZZ_RUNS = 240000     # thorough tier: atheris executions (all children)
RULE = (
    "Pairs (g1, g2) of same-class graphs, n <= 8, from: renamed copies, "
    "renamed single-feature mutants, independent draws over a tiny universe, "
    "cis/trans ring families, and symmetric skeletons (stars with repeated "
    "ligands, cycles, glued doubles); enumerated with "
    "vf2pp_all_isomorphisms in the modes stereo in {F,T} x stereo_change in "
    "{F,T} (where the class has them) x labels in {default, colour-refined "
    "as __eq__ builds them, uniform, random element->class map}. Oracle: "
    "the list of yielded mappings equals, as a multiset, the set found by "
    "the brute-force search (valid, none missing, none twice). Large "
    "symmetric graphs (cycles C_n n<=24, stars K_1,k k<=7, K_3,3, cube, "
    "Petersen, prisms): every yielded automorphism valid, distinct, identity "
    "present, closed under composition/inverse, count = known group order. "
    "topological_symmetry_number(g) = brute-force count of stereo-preserving "
    "automorphisms. Non-trivial: >= 2 valid mappings exist or the "
    "brute-force search had to backtrack; distinct = SHA-1 of the case."
)
ASSUMPTIONS = [
    "'valid' mirrors what the enumerator is asked: labels in use, adjacency, "
    "bond reaction roles, and descriptors / stereo changes only when asked",
    "fully specified parities",
]
TRUSTED = ["vp/iso.py", "vp/symmetry.py", "known automorphism group orders"]


def gen(data: bytes):
    from vp.props import c02
    tp = S.Tape(data)
    k = tp.weighted([3, 5, 3, 2])
    if k == 3:
        cls = tp.pick(["MG", "CRG", "SMG"])
        m = S.random_regular(tp, cls)
        if m is None:
            k = 0
        else:
            rb, _ = S.variant_from(m, list(S.renaming(tp, m.atoms).items()),
                                   tp.below(1 << 30))
            case = {"src": "regular", "a": S.shuffled_recipe(tp, m), "b": rb,
                    "stereo": False, "changes": False,
                    "labels": tp.pick(["default", "uniform", "refined"])}
            return case
    if k == 0:
        cls = tp.pick(["MG", "SMG", "CRG", "SCRG", "SMG", "SCRG"])
        fam = tp.pick(["star", "cycle", "double", "double", "gnp"])
        m = S.gen_model(tp, cls, nmax=8, nmin=2, family=fam, kmax=2,
                        p_atom=170, p_bond=100)
        rb, _ = S.variant_from(m, list(S.renaming(tp, m.atoms).items()),
                               tp.below(1 << 30))
        case = {"src": "symmetric", "a": S.shuffled_recipe(tp, m), "b": rb}
    else:
        case = c02.gen_pair(tp, sources=(4, 6, 3, 0, 0, 3))
        case.pop("kind", None)
    if tp.chance(128):
        case["a"], case["b"] = case["b"], case["a"]
    cls = case["a"]["cls"]
    stereo = cls in ("SMG", "SCRG") and tp.chance(170)
    changes = cls == "SCRG" and stereo and tp.chance(170)
    lk = tp.weighted([4, 3, 1, 2])
    if lk == 3:
        labels = ["elemmap", tp.below(3), tp.below(1000)]
    else:
        labels = ("default", "refined", "uniform")[lk]
    case.update(stereo=bool(stereo), changes=bool(changes), labels=labels)
    return case


def _labels(case, ma, mb, a, b):
    kind = case["labels"]
    if kind == "default":
        return None, None
    if kind == "uniform":
        la = {x: 7 for x in ma.atoms}
        lb = {x: 7 for x in mb.atoms}
    elif kind == "refined":
        from stereomolgraph.algorithms import color_refine as cr
        cls = ma.cls
        fn = {"MG": cr.color_refine_mg, "SMG": cr.color_refine_smg,
              "CRG": cr.color_refine_crg, "SCRG": cr.color_refine_scrg}[cls]
        attrs = (("atom_type",) if cls in ("MG", "SMG")
                 else ("atom_type", "reaction"))
        with guard(f"C05/{cls}/refined-labels"):
            ca = fn(a, atom_labels=cr.label_hash(a, atom_labels=attrs))
            cb = fn(b, atom_labels=cr.label_hash(b, atom_labels=attrs))
            la = {x: int(c) for x, c in zip(a.atoms, ca)}
            lb = {x: int(c) for x, c in zip(b.atoms, cb)}
    else:
        _, k, salt = kind
        f = lambda z: (z * 2654435761 + salt) % (k + 1)  # noqa: E731
        la = {x: f(at["atom_type"]) for x, at in ma.atoms.items()}
        lb = {x: f(at["atom_type"]) for x, at in mb.atoms.items()}
    return (la, lb), (la, lb)


def shrink(case):
    for cand in rc.shrink_candidates(case["a"]):
        yield {**case, "a": cand}
    for cand in rc.shrink_candidates(case["b"]):
        yield {**case, "b": cand}
    if case["labels"] != "default":
        yield {**case, "labels": "default"}
    if case["changes"]:
        yield {**case, "changes": False}
    if case["stereo"] and not case["changes"]:
        yield {**case, "stereo": False}


def evaluate(case):
    """-> (cls, mode, yielded, expected, stats)"""
    ma = rc.require_valid(case["a"])
    mb = rc.require_valid(case["b"])
    if ma.cls != mb.cls or len(ma.atoms) > 20:
        raise HarnessError("C05 case: same class, n <= 20")
    if any(d[2] is None for d in itertools.chain(
            rc.all_descs(case["a"]), rc.all_descs(case["b"]))):
        raise HarnessError("C05 case: specified parities only")
    cls = ma.cls
    stereo, changes = case["stereo"], case["changes"]
    if stereo and cls not in ("SMG", "SCRG") or changes and (
            cls != "SCRG" or not stereo):
        raise HarnessError("C05 case: mode not available for the class")
    lk = case["labels"] if isinstance(case["labels"], str) else "elemmap"
    mode = f"stereo={int(stereo)},change={int(changes)},labels={lk}"
    a, b = rc.build(case["a"]), rc.build(case["b"])
    real_labels, oracle_labels = _labels(case, ma, mb, a, b)
    from stereomolgraph.algorithms.isomorphism import vf2pp_all_isomorphisms
    with guard(f"C05/{cls}/{mode}/enumerate"):
        # the natural usage: materialise the generator first (a yielded
        # mapping must not be mutated by the continuing search)
        got = list(vf2pp_all_isomorphisms(
            a, b, atom_labels=real_labels, stereo=stereo,
            stereo_change=changes, subgraph=False))
        got = [dict(f) for f in got]
    stats = {}
    want = iso.all_mappings(ma, mb, labels=oracle_labels, roles=True,
                            stereo=stereo, changes=changes, stats=stats)
    return cls, mode, got, want, stats


def check_case(ctx, case):
    if case.get("src") == "large":
        return check_large(ctx, case)
    if case.get("src") == "symnum":
        return check_symnum(ctx, case)
    try:
        cls, mode, got, want, stats = evaluate(case)
    except iso.BudgetExceeded:
        ctx.exclude("oracle-budget-exceeded")
        return None
    key = lambda f: tuple(sorted(f.items()))  # noqa: E731
    want_set = {key(f) for f in want}
    got_keys = [key(f) for f in got]
    for k in got_keys:
        if k not in want_set:
            raise Violation(f"C05/{cls}/{mode}/invalid-mapping",
                            f"yielded {dict(k)} which is not a valid "
                            f"bijection; {len(want)} valid ones exist")
    if len(set(got_keys)) != len(got_keys):
        raise Violation(f"C05/{cls}/{mode}/duplicate-mapping",
                        f"{len(got_keys)} yielded, {len(set(got_keys))} "
                        f"distinct")
    if set(got_keys) != want_set:
        miss = sorted(want_set - set(got_keys))[0]
        raise Violation(f"C05/{cls}/{mode}/missing-mapping",
                        f"{len(got_keys)} yielded, {len(want)} valid; e.g. "
                        f"{dict(miss)} missing")
    return len(want), stats.get("backtracks", 0)


# ---- large symmetric graphs --------------------------------------------

def _large_model(name, n, cls="MG"):
    m = Model(cls)
    if name == "cycle":
        for i in range(n):
            m.add_atom(i, 6)
        for i in range(n):
            m.add_bond(i, (i + 1) % n)
        order = 2 * n if n >= 3 else None
    elif name == "star":
        m.add_atom(0, 78)
        for i in range(1, n + 1):
            m.add_atom(i, 17)
            m.add_bond(0, i)
        order = 1
        for i in range(2, n + 1):
            order *= i
    elif name == "k33":
        for i in range(6):
            m.add_atom(i, 6)
        for i in range(3):
            for j in range(3, 6):
                m.add_bond(i, j)
        order = 72
    elif name == "cube":
        for i in range(8):
            m.add_atom(i, 6)
        for i in range(8):
            for b in (1, 2, 4):
                if i < i ^ b:
                    m.add_bond(i, i ^ b)
        order = 48
    elif name == "q4":
        for i in range(16):
            m.add_atom(i, 6)
        for i in range(16):
            for b in (1, 2, 4, 8):
                if i < i ^ b:
                    m.add_bond(i, i ^ b)
        order = 384
    elif name == "petersen":
        for i in range(10):
            m.add_atom(i, 6)
        for i in range(5):
            m.add_bond(i, (i + 1) % 5)
            m.add_bond(i, i + 5)
            m.add_bond(5 + i, 5 + (i + 2) % 5)
        order = 120
    elif name == "prism":
        for i in range(2 * n):
            m.add_atom(i, 6)
        for i in range(n):
            m.add_bond(i, (i + 1) % n)
            m.add_bond(n + i, n + (i + 1) % n)
            m.add_bond(i, n + i)
        order = 4 * n if n != 4 else 48
    else:
        raise HarnessError(name)
    return m, order


def check_large(ctx, case):
    m, order = _large_model(case["name"], case["n"], case.get("cls", "MG"))
    mp = {a: b for a, b in case["mapping"]}
    if set(mp) != set(m.atoms) or len(set(mp.values())) != len(mp):
        raise HarnessError("large case: mapping must be a bijection")
    m = m.relabel(mp)
    r = S.shuffled_recipe(S.seed_tape(case["tseed"]), m)
    g = rc.build(r)
    name = f"{case['name']}{case['n']}"
    from stereomolgraph.algorithms.isomorphism import vf2pp_all_isomorphisms
    with guard(f"C05/{m.cls}/large/{name}/enumerate"):
        got = list(vf2pp_all_isomorphisms(g, g))
        got = [dict(f) for f in got]
    keys = [tuple(sorted(f.items())) for f in got]
    for f in got:
        if not iso.is_valid(m, m, f, stereo=False, changes=False):
            raise Violation(f"C05/{m.cls}/large/invalid-automorphism",
                            f"{name}: {f}")
    if len(set(keys)) != len(keys):
        raise Violation(f"C05/{m.cls}/large/duplicate-automorphism", name)
    if len(keys) != order:
        raise Violation(f"C05/{m.cls}/large/wrong-group-order",
                        f"{name}: {len(keys)} automorphisms, group order is "
                        f"{order}")
    ident = tuple(sorted((a, a) for a in m.atoms))
    kset = set(keys)
    if ident not in kset:
        raise Violation(f"C05/{m.cls}/large/identity-missing", name)
    sample = got if len(got) <= 130 else got[:: max(1, len(got) // 130)]
    for f in sample:
        inv = tuple(sorted((v, k) for k, v in f.items()))
        if inv not in kset:
            raise Violation(f"C05/{m.cls}/large/not-closed-inverse", name)
        for h in sample:
            comp = tuple(sorted((a, f[h[a]]) for a in h))
            if comp not in kset:
                raise Violation(f"C05/{m.cls}/large/not-closed-composition",
                                name)
    return order


def check_symnum(ctx, case):
    ma = rc.require_valid(case["a"])
    if ma.cls != "SMG" or len(ma.atoms) > 9 or any(
            d[2] is None for d in rc.all_descs(case["a"])):
        raise HarnessError("symnum case: small fully specified SMG")
    if not ma.atoms:
        raise HarnessError("symnum case: non-empty")
    g = rc.build(case["a"])
    want = len(iso.all_mappings(ma, ma, stereo=True, changes=False))
    from stereomolgraph.experimental import topological_symmetry_number
    with guard("C05/SMG/topological_symmetry_number"):
        got = topological_symmetry_number(g)
    if got != want:
        raise Violation("C05/SMG/topological_symmetry_number/wrong-count",
                        f"returned {got}, {want} stereo-preserving "
                        f"automorphisms exist")
    return want


def run(ctx):
    def check(case):
        res = check_case(ctx, case)
        if res is None:
            return
        nvalid, backtracks = res
        lk = case["labels"] if isinstance(case["labels"], str) else "elemmap"
        ctx.note(case, nvalid >= 2 or backtracks >= 1,
                 [f"src:{case['src']}", f"cls:{case['a']['cls']}",
                  f"stereo:{int(case['stereo'])}",
                  f"change:{int(case['changes'])}", f"labels:{lk}",
                  "valid:0" if nvalid == 0 else "valid:1" if nvalid == 1
                  else "valid:2-5" if nvalid <= 5 else "valid:6+"])

    ctx.hyp("c05", S.mapped(1200, gen), check, ctx.scale(16000, 500000),
            shrinker=shrink)

    # topological symmetry number
    def gen_s(data):
        tp = S.Tape(data)
        fam = tp.pick(["star", "cycle", "double", "tree", "gnp"])
        m = S.gen_model(tp, "SMG", nmax=8, nmin=1, family=fam, kmax=2,
                        p_atom=170, p_bond=100)
        return {"src": "symnum", "a": S.shuffled_recipe(tp, m)}

    def check_s(case):
        n = check_symnum(ctx, case)
        ctx.note(case, n >= 2, ["src:symnum", f"symnum:{min(n, 12)}"])

    def shrink_s(case):
        for cand in rc.shrink_candidates(case["a"]):
            yield {**case, "a": cand}

    ctx.hyp("c05-symnum", S.mapped(900, gen_s), check_s,
            ctx.scale(3000, 80000), shrinker=shrink_s)

    # large symmetric graphs
    def gen_l(data):
        tp = S.Tape(data)
        name = tp.pick(["cycle", "cycle", "star", "k33", "cube", "q4",
                        "petersen", "prism"])
        n = {"cycle": 3 + tp.below(22), "star": 2 + tp.below(6),
             "prism": 3 + tp.below(8)}.get(name, 0)
        m, _ = _large_model(name, n)
        mp = S.renaming(tp, m.atoms)
        return {"src": "large", "name": name, "n": n,
                "cls": tp.pick(["MG", "SMG", "CRG", "SCRG"]),
                "mapping": [[a, b] for a, b in mp.items()],
                "tseed": tp.below(1 << 30)}

    def check_l(case):
        order = check_large(ctx, case)
        ctx.note(case, True, ["src:large", f"large:{case['name']}",
                              f"order:{order}"])

    ctx.hyp("c05-large", S.mapped(400, gen_l), check_l,
            ctx.scale(160, 3000), ddmin=False)
