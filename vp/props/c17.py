"""C17 - Subgraph, compose and components form a consistent algebra."""
from __future__ import annotations

from vp import recipes as rc
from vp import strategies as S
from vp.harness import HarnessError, Violation, guard
from vp.model import Model, snap_diff
from vp.props.c09 import diff_kind
from vp.snapshot import snapshot

ID = "C17"
LEVEL = "exploration"
QUICK_SHARDS = 4
MIN_NONTRIVIAL = 50
FUZZ_RUNS = 240000     # thorough tier: atheris executions (all children)
RULE = (
    "Recipe (all four classes, attributes, descriptors crossing prospective "
    "cuts, placeholders, unspecified parity, roles, changes) x subset S of "
    "the atoms passed as list, tuple, set, frozenset, dict_keys, one-shot "
    "iterator or generator expression (sequence forms may repeat an atom, "
    "also so that len(S) equals the number of atoms) x covers of the atom "
    "set by the connected components, by disjoint pieces and by overlapping "
    "pieces, the pieces cut from one graph or from two graphs over the same "
    "atoms that differ by validity-preserving mutations (other descriptors, "
    "elements, bonds). "
    "Oracle: snapshot(g.subgraph(S)) == model.subgraph(S) exactly (atoms "
    "with attributes, induced bonds with attributes, precisely the "
    "descriptors and changes whose non-placeholder atoms all lie in S), g "
    "untouched, the subgraph stays usable (all views coherent); "
    "connected_components() = the partition computed by an independent BFS "
    "(non-empty, disjoint, covering, connected, maximal); "
    "Cls.compose(component subgraphs) == g as labelled graph; for arbitrary "
    "pieces atoms / bonds are the union with coherent neighbour sets and for "
    "every attribute present in a later piece the later value wins, and the "
    "descriptor / change tables equal the later-wins union of the pieces'; "
    "the pieces themselves are unchanged afterwards; components rebuilt in "
    "the smallest class that can hold them (a plain molecule handed to a "
    "reaction-graph compose) still compose to the original; in half of the "
    "cases the same object is afterwards renamed in place (components and "
    "compose of its parts must follow) and loses a bond (components must "
    "follow). "
    "Non-trivial: a descriptor or change straddles the cut, S is a one-shot "
    "iterator, or the graph has >= 2 components; distinct = SHA-1."
)
ASSUMPTIONS = [
    "S is a subset of the atoms; pieces passed to compose are graphs of the "
    "class compose is called on or of one of its base classes",
    "attributes present only in an earlier overlapping piece are not "
    "asserted (docstring ambiguous between replace and merge)",
]
TRUSTED = ["vp/model.py subgraph/components/compose", "vp/snapshot.py"]

FORMS = ("list", "tuple", "set", "frozenset", "dict_keys", "iter", "genexpr")


def as_form(form, atoms):
    atoms = list(atoms)
    if form == "list":
        return list(atoms)
    if form == "tuple":
        return tuple(atoms)
    if form == "set":
        return set(atoms)
    if form == "frozenset":
        return frozenset(atoms)
    if form == "dict_keys":
        return dict.fromkeys(atoms).keys()
    if form == "iter":
        return iter(atoms)
    if form == "genexpr":
        return (a for a in atoms)
    raise HarnessError(form)


def gen(data: bytes):
    tp = S.Tape(data)
    cls = tp.pick(["MG", "SMG", "CRG", "SCRG", "SMG", "SCRG"])
    fam = tp.pick([None, None, "sparse", "union", "double"])
    m = S.gen_model(tp, cls, nmax=9, nmin=0, none_parity=25, attrs=True,
                    family=fam)
    atoms = list(m.atoms)
    k = tp.below(len(atoms) + 1)
    subset = tp.shuffle(atoms)[:k]
    # pieces: a random cover, possibly overlapping
    npieces = 1 + tp.below(3)
    pieces = [[] for _ in range(npieces)]
    for a in atoms:
        pieces[tp.below(npieces)].append(a)
        if tp.chance(60):
            pieces[tp.below(npieces)].append(a)
    pieces = [sorted(set(p), key=atoms.index) for p in pieces if p]
    form = tp.pick(FORMS)
    if subset and form in ("list", "tuple", "iter", "genexpr") \
            and tp.chance(90):
        # an iterable may name an atom more than once
        extra = [tp.pick(subset) for _ in range(1 + tp.below(4))]
        if tp.chance(128) and len(subset) < len(atoms):
            extra = [tp.pick(subset)
                     for _ in range(len(atoms) - len(subset))]
        subset = tp.shuffle(subset + extra)
    case = {"a": S.shuffled_recipe(tp, m), "subset": subset,
            "form": form, "pieces": pieces}
    if pieces and tp.chance(110):
        # pieces cut from two different graphs over the same atoms: the
        # later piece has to win where descriptors / attributes differ
        b = m
        for _ in range(1 + tp.below(3)):
            b2, _k = S.mutate(tp, b)
            if b2 is not None and set(b2.atoms) == set(m.atoms):
                b = b2
        if b is not m:
            case["b"] = S.shuffled_recipe(tp, b)
            case["pieces_src"] = [tp.pick(["a", "b"]) for _ in pieces]
            if tp.chance(128):
                # two whole graphs on top of each other, either order
                case["pieces"] = [list(atoms), list(atoms)]
                case["pieces_src"] = tp.pick([["a", "b"], ["b", "a"]])
    if atoms and tp.chance(128):
        pool = list(dict.fromkeys(tp.shuffle(atoms) + [700, 701, -3, 2**40]))
        tgt = tp.shuffle(pool)[:len(atoms)] if tp.chance(128) \
            else tp.shuffle(atoms)
        bl = sorted(m.bonds, key=sorted)
        case["later"] = {"mapping": [[a, b] for a, b in zip(atoms, tgt)],
                         "cut": sorted(tp.pick(bl)) if bl else None}
    return case


def _later_for(case, atoms):
    lt = case.get("later")
    if not lt:
        return {}
    cut = lt.get("cut")
    return {"later": {"mapping": [p for p in lt["mapping"] if p[0] in atoms],
                      "cut": cut if cut and set(cut) <= atoms else None}}


def shrink(case):
    for cand in rc.shrink_candidates(case["a"], strict=False):
        atoms = {a[0] for a in cand["atoms"]}
        yield {**case, "a": cand, **_later_for(case, atoms),
               "subset": [x for x in case["subset"] if x in atoms],
               "pieces": [[x for x in p if x in atoms]
                          for p in case["pieces"]]} if "b" not in case \
            else {**case, "subset": []}
    sub = case["subset"]
    for i in range(len(sub)):
        yield {**case, "subset": sub[:i] + sub[i + 1:]}
    if case["form"] != "list":
        yield {**case, "form": "list"}
    if "b" in case:
        yield {k: v for k, v in case.items() if k not in ("b", "pieces_src")}
    ps = case["pieces"]
    for i in range(len(ps)):
        yield {**case, "pieces": ps[:i] + ps[i + 1:]}


def straddles(m: Model, S_):
    S_ = set(S_)
    for *_, d in m.all_descs():
        real = [a for a in d[1] if a is not None]
        if any(a in S_ for a in real) and any(a not in S_ for a in real):
            return True
    return False


def check_case(ctx, case):
    ma = rc.require_valid(case["a"], strict=False)
    cls = ma.cls
    C = rc.classes()[cls]
    sub = case["subset"]
    if not set(sub) <= set(ma.atoms):
        raise HarnessError("S must consist of atoms of the graph")
    if len(set(sub)) != len(sub) and case["form"] not in (
            "list", "tuple", "iter", "genexpr"):
        raise HarnessError("duplicates need a sequence form")
    g = rc.build(case["a"])
    s0 = snapshot(g, f"C17/{cls}/source")
    form = case["form"]
    fk = "one-shot" if form in ("iter", "genexpr") else "container"
    # ---- subgraph
    with guard(f"C17/subgraph/{fk}"):
        sg = g.subgraph(as_form(form, sub))
    want = ma.subgraph(list(dict.fromkeys(sub))).snapshot()
    try:
        ss = snapshot(sg, f"C17/subgraph/{fk}")
    except Violation as v:
        raise Violation(v.sig, f"g.subgraph({form} {sub}): {v.msg}")
    d = snap_diff(ss, want, "exact")
    if d:
        raise Violation(f"C17/subgraph/{fk}/{diff_kind(d)}",
                        f"subgraph({form} {sub}) vs induced subgraph: {d}")
    d = snap_diff(snapshot(g, f"C17/{cls}/source"), s0, "exact")
    if d:
        raise Violation(f"C17/{cls}/subgraph/source-modified", d)
    # ---- components
    with guard(f"C17/{cls}/connected_components"):
        comps = [set(c) for c in g.connected_components()]
    wantc = ma.components()
    if any(not c for c in comps) or len({frozenset(c) for c in comps}) != \
            len(comps) or {frozenset(c) for c in comps} != wantc:
        raise Violation(f"C17/{cls}/connected_components/wrong-partition",
                        f"{comps} vs {sorted(map(sorted, wantc))}")
    for a in ma.atoms:
        with guard(f"C17/{cls}/node_connected_component"):
            c = set(g.node_connected_component(a))
        if frozenset(c) not in wantc or a not in c:
            raise Violation(
                f"C17/{cls}/node_connected_component/wrong", f"{a}: {c}")
    # ---- compose(component subgraphs) reproduces g
    with guard(f"C17/{cls}/compose-components"):
        parts = [g.subgraph(sorted(c, key=list(ma.atoms).index))
                 for c in comps]
        whole = C.compose(parts)
    try:
        sw = snapshot(whole, "C17/compose-components")
    except Violation as v:
        raise Violation(v.sig, f"compose of component subgraphs: {v.msg}")
    d = snap_diff(sw, ma.snapshot(), "exact")
    if d:
        raise Violation(f"C17/compose-components/{diff_kind(d)}",
                        f"compose(component subgraphs) vs original: {d}")
    # ---- the same with every component rebuilt in the smallest class that
    # can hold it (a spectator molecule handed to a reaction-graph compose)
    order = list(ma.atoms)
    lower, low_parts = 0, []
    for c in sorted(wantc, key=lambda c_: min(order.index(a) for a in c_)):
        sub = ma.subgraph(sorted(c, key=order.index))
        reaction = any("reaction" in at for at in sub.bonds.values()) or \
            sub.atom_changes or sub.bond_changes
        stereo = sub.atom_stereo or sub.bond_stereo or sub.atom_changes or \
            sub.bond_changes
        small = ("SCRG" if reaction and stereo else "CRG" if reaction
                 else "SMG" if stereo else "MG")
        if small not in (cls, "MG" if cls == "MG" else small) or (
                cls in ("SMG", "CRG") and small not in (cls, "MG")):
            small = cls
        if small != cls:
            lower += 1
        sub.cls = small
        low_parts.append(rc.build(rc.from_model(sub)))
    if lower:
        with guard(f"C17/{cls}/compose-mixed-classes"):
            whole2 = C.compose(low_parts)
        d = snap_diff(snapshot(whole2, "C17/compose-mixed-classes"),
                      ma.snapshot(), "exact")
        if d:
            raise Violation(
                f"C17/compose-mixed-classes/{diff_kind(d)}",
                f"{cls}.compose of components built as "
                f"{[type(x).__name__ for x in low_parts]} vs original: {d}")
        ctx.classes["compose:pieces-of-a-smaller-class"] += 1
    # ---- arbitrary (overlapping) pieces
    pieces = [p for p in case["pieces"] if p]
    if pieces:
        if not all(set(p) <= set(ma.atoms) for p in pieces):
            raise HarnessError("pieces must be subsets")
        src = case.get("pieces_src") or ["a"] * len(pieces)
        models = {"a": ma}
        graphs = {"a": g}
        if "b" in case:
            models["b"] = rc.require_valid(case["b"], strict=False)
            if set(models["b"].atoms) != set(ma.atoms) or \
                    models["b"].cls != cls or len(src) != len(pieces):
                raise HarnessError("second source must share class and atoms")
            graphs["b"] = rc.build(case["b"])
        with guard(f"C17/{cls}/compose-pieces"):
            pg = [graphs[s_].subgraph(list(p)) for s_, p in zip(src, pieces)]
            comp = C.compose(pg)
        try:
            sc = snapshot(comp, "C17/compose-pieces")
        except Violation as v:
            raise Violation(v.sig, f"compose of pieces {pieces}: {v.msg}")
        pm = [models[s_].subgraph(p) for s_, p in zip(src, pieces)]
        # composing must not touch what it was given
        for k_, (piece, want_p) in enumerate(zip(pg, pm)):
            try:
                d = snap_diff(snapshot(piece, "C17/compose-input"),
                              want_p.snapshot(), "exact")
            except Violation as v:
                raise Violation("C17/compose-modified-its-input/incoherent",
                                f"piece {k_} {pieces[k_]}: {v.msg}")
            if d:
                raise Violation(
                    f"C17/compose-modified-its-input/{diff_kind(d)}",
                    f"piece {k_} {pieces[k_]} after compose: {d}")
        wantm = Model.compose(cls, pm)
        ws = wantm.snapshot()
        # structure: union of atoms and bonds
        if set(sc["atoms"]) != set(ws["atoms"]) or \
                set(sc["bonds"]) != set(ws["bonds"]):
            raise Violation(f"C17/{cls}/compose-pieces/not-the-union",
                            f"atoms {sorted(sc['atoms'])} bonds "
                            f"{sorted(sc['bonds'])} vs union "
                            f"{sorted(ws['atoms'])} {sorted(ws['bonds'])}")
        # attributes present in the last piece that has the key win
        for key in ("atoms", "bonds"):
            for k_, at in ws[key].items():
                for name, val in at.items():
                    if sc[key][k_].get(name) != val:
                        raise Violation(
                            f"C17/{cls}/compose-pieces/later-attribute-lost",
                            f"{key}[{k_}].{name}: {sc[key][k_].get(name)!r}"
                            f" expected {val!r}")
        for key in ("atom_stereo", "bond_stereo", "atom_changes",
                    "bond_changes"):
            if sc[key] != ws[key]:
                raise Violation(f"C17/{cls}/compose-pieces/{key}",
                                f"{sc[key]} vs {ws[key]}")
    # ---- the same object later in its life: after an in-place renaming
    # and after losing a bond the partition (and compose of its parts) must
    # follow; a component list remembered from the calls above must not
    if case.get("later"):
        mp = {a: b for a, b in case["later"]["mapping"]}
        if set(mp) != set(ma.atoms) or len(set(mp.values())) != len(mp):
            raise HarnessError("later.mapping must be a bijection on atoms")
        with guard(f"C17/{cls}/later/relabel-inplace"):
            g.relabel_atoms(dict(mp), copy=False)
        bonds = [frozenset(mp[x] for x in b) for b in ma.bonds]
        cut = case["later"].get("cut")
        for stage in ("relabelled", "bond-removed"):
            if stage == "bond-removed":
                if cut is None or frozenset(mp[x] for x in cut) not in bonds:
                    break
                cb = frozenset(mp[x] for x in cut)
                with guard(f"C17/{cls}/later/remove_bond"):
                    g.remove_bond(*cb)
                bonds.remove(cb)
            wantl = _partition(list(mp.values()), bonds)
            with guard(f"C17/{cls}/later/{stage}/connected_components"):
                compl = [set(c) for c in g.connected_components()]
            if len({frozenset(c) for c in compl}) != len(compl) or \
                    {frozenset(c) for c in compl} != wantl:
                raise Violation(
                    f"C17/{cls}/later/{stage}/wrong-partition",
                    f"{compl} vs {sorted(map(sorted, wantl))}")
            if stage != "relabelled":
                # remove_bond keeps descriptors that now straddle two
                # components: compose(parts) == g is not claimed there
                continue
            with guard(f"C17/{cls}/later/{stage}/compose-components"):
                whole = C.compose([g.subgraph(sorted(c, key=repr))
                                   for c in compl])
            d = snap_diff(snapshot(whole, f"C17/{cls}/later/{stage}"),
                          snapshot(g, f"C17/{cls}/later/{stage}"), "exact")
            if d:
                raise Violation(
                    f"C17/{cls}/later/{stage}/compose-components/"
                    f"{diff_kind(d)}", d)
    return ma


def _partition(atoms, bonds):
    comp = {a: frozenset([a]) for a in atoms}
    for b in bonds:
        x, y = tuple(b)
        if comp[x] is not comp[y]:
            u = comp[x] | comp[y]
            for z in u:
                comp[z] = u
    return set(comp.values())


def run(ctx):
    def check(case):
        ma = check_case(ctx, case)
        sub = case["subset"]
        nt = (straddles(ma, sub) or case["form"] in ("iter", "genexpr")
              or len(ma.components()) >= 2)
        labs = rc.features(case["a"]) + [f"form:{case['form']}"]
        if straddles(ma, sub):
            labs.append("straddling-descriptor")
        if len(set(sub)) != len(sub):
            labs.append("subset-with-duplicates")
            if len(sub) == len(ma.atoms):
                labs.append("duplicates-as-long-as-the-graph")
        if "b" in case and len(set(case["pieces_src"])) == 2:
            labs.append("pieces-from-two-graphs")
        if len(ma.components()) >= 2:
            labs.append("multi-component")
        ctx.note(case, nt, labs)

    ctx.hyp("c17", S.mapped(1500, gen), check, ctx.scale(6000, 250000),
            shrinker=shrink)
