"""CLI: python -m vp.run <ID> --tier quick|thorough | --replay <file>"""
from __future__ import annotations

import argparse
import os
import sys


def main(argv=None):
    ap = argparse.ArgumentParser()
    ap.add_argument("pid")
    ap.add_argument("--tier", default=os.environ.get("VERIF_TIER", "quick"),
                    choices=["quick", "thorough"])
    ap.add_argument("--replay")
    ap.add_argument("--seed", type=int,
                    default=int(os.environ.get("VERIF_SEED", "1") or 1))
    ap.add_argument("--shards", type=int, default=None)
    a = ap.parse_args(argv)
    import warnings
    warnings.filterwarnings('ignore')
    os.environ.setdefault('PYTHONWARNINGS', 'ignore')
    import faulthandler
    import signal
    faulthandler.register(signal.SIGUSR1, all_threads=True)

    from vp import harness
    import stereomolgraph
    src = os.path.realpath(os.path.dirname(stereomolgraph.__file__))
    want = os.path.realpath(harness.REPO_SRC)
    if not src.startswith(want + os.sep):
        print(f"HARNESS-ERROR: stereomolgraph imported from {src}, "
              f"expected below {want}", file=sys.stderr)
        return 2
    pid = a.pid.upper()
    try:
        if a.replay:
            return harness.main_replay(pid, a.replay)
        return harness.main_run(pid, a.tier, a.seed, a.shards)
    except harness.HarnessError as e:
        print(f"HARNESS-ERROR property={pid}: {e}", file=sys.stderr)
        return 2
    except Exception:
        import traceback
        print(f"HARNESS-ERROR property={pid}\n{traceback.format_exc()}",
              file=sys.stderr)
        return 2


if __name__ == "__main__":
    sys.exit(main())
