"""Generators.  Every random choice is read from a byte tape that Hypothesis
draws (``st.binary(min_size=N, max_size=N)``), so generation is a pure
function of the tape, shrinking works on the tape (zero bytes = simplest
choice everywhere) and no RNG of our own exists.
"""
from __future__ import annotations

import copy

from hypothesis import strategies as st

from vp import symmetry as sym
from vp.model import Model, ROLES
from vp import recipes as rc


class Tape:
    def __init__(self, data: bytes):
        self.d = data
        self.i = 0

    def byte(self) -> int:
        b = self.d[self.i] if self.i < len(self.d) else 0
        self.i += 1
        return b

    def below(self, n: int) -> int:
        """uniform-ish integer in [0, n); 0 on an exhausted / zero tape"""
        if n <= 1:
            return 0
        if n <= 256:
            return self.byte() % n
        v, k = 0, 0
        while (1 << (8 * k)) < n * 16 and k < 8:
            v = (v << 8) | self.byte()
            k += 1
        return v % n

    def chance(self, per256: int) -> bool:
        """True with probability per256/256; False on a zero tape"""
        return self.byte() >= 256 - per256

    def pick(self, seq):
        return seq[self.below(len(seq))]

    def shuffle(self, seq):
        seq = list(seq)
        for i in range(len(seq) - 1, 0, -1):
            j = self.below(i + 1)
            seq[i], seq[j] = seq[j], seq[i]
        return seq

    def weighted(self, weights):
        tot = sum(weights)
        x = self.below(tot)
        for i, w in enumerate(weights):
            if x < w:
                return i
            x -= w
        return len(weights) - 1


def tapes(nbytes=600):
    return st.binary(min_size=nbytes, max_size=nbytes)


TAPE_REGISTRY = {}      # id(strategy) -> (gen, tape length), for the fuzz stage


def mapped(nbytes, gen):
    """tapes(nbytes).map(gen), remembered so that other engines (atheris) can
    drive the same generator with their own bytes"""
    s = tapes(nbytes).map(gen)
    TAPE_REGISTRY[id(s)] = (gen, nbytes, s)
    return s


# ---------------------------------------------------------------------------
# ids and elements

ELEMENT_POOL = [6, 1, 8, 7, 9, 17, 35, 15, 16, 78, 26, 53, 14, 5]


def draw_ids(tp: Tape, n: int, mode=None):
    if mode is None:
        mode = tp.weighted([3, 3, 4])
    if mode == 0:
        return list(range(n))
    if mode == 1:
        off = tp.below(5)
        return tp.shuffle(range(off, off + n))
    out, seen = [], set()
    while len(out) < n:
        k = tp.weighted([4, 3, 2, 1])
        if k == 0:
            v = tp.below(24)
        elif k == 1:
            v = -1 - tp.below(24)
        elif k == 2:
            v = 100 + tp.below(1000)
        else:
            # up to 2**62 + small: beyond the integers a double can hold
            v = (1 << (31 + tp.below(32))) + tp.below(1000)
            if tp.chance(60):
                v = -v
        while v in seen:
            v += 1
        seen.add(v)
        out.append(v)
    return out


def draw_alphabet(tp: Tape, kmax=4, wide=False):
    if wide and tp.chance(24):
        return list(range(1, 119))
    k = 1 + tp.below(kmax)
    start = tp.below(len(ELEMENT_POOL))
    return [ELEMENT_POOL[(start + i) % len(ELEMENT_POOL)] for i in range(k)]


# ---------------------------------------------------------------------------
# skeletons (as Models, bonds without roles)

FAMILIES = ("gnp", "tree", "cycle", "star", "union", "sparse", "double",
            "bigstar")


def skeleton(tp: Tape, cls, nmax=8, family=None, ids_mode=None, kmax=4,
             wide=False, nmin=0, max_deg=6, alpha=None):
    m = Model(cls)
    if family is None:
        family = FAMILIES[tp.weighted([5, 4, 3, 4, 2, 2, 3])]  # bigstar: opt-in
    if family == "double":
        return _double(tp, cls, nmax, ids_mode, kmax, alpha)
    if family == "bigstar":
        # a centre with 7-8 ligands (no descriptor class exists for it)
        k = 7 + tp.below(2)
        ids = draw_ids(tp, k + 1 + tp.below(3), ids_mode)
        if alpha is None:
            alpha = draw_alphabet(tp, kmax, wide)
        for a in ids:
            m.add_atom(a, tp.pick(alpha))
        for a in ids[1:k + 1]:
            m.add_bond(ids[0], a)
        for a in ids[k + 1:]:
            m.add_bond(a, ids[1 + tp.below(k)])
        return m
    n = nmin + tp.below(nmax - nmin + 1)
    ids = draw_ids(tp, n, ids_mode)
    if alpha is None:
        alpha = draw_alphabet(tp, kmax, wide)
    for a in ids:
        m.add_atom(a, tp.pick(alpha))
    deg = {a: 0 for a in ids}

    def add(a, b):
        if a != b and frozenset((a, b)) not in m.bonds \
                and deg[a] < max_deg and deg[b] < max_deg:
            m.add_bond(a, b)
            deg[a] += 1
            deg[b] += 1

    if n < 2:
        return m
    if family == "gnp":
        p = tp.pick([40, 80, 120, 180])
        for i in range(n):
            for j in range(i + 1, n):
                if tp.chance(p):
                    add(ids[i], ids[j])
    elif family in ("tree", "sparse", "union"):
        order = tp.shuffle(ids)
        for i in range(1, n):
            add(order[i], order[tp.below(i)])
        if family == "tree":
            for _ in range(tp.below(3)):
                add(tp.pick(ids), tp.pick(ids))
        else:
            # drop some bonds -> several components / isolated atoms
            for b in list(m.bonds):
                if tp.chance(90):
                    del m.bonds[b]
    elif family == "cycle":
        order = tp.shuffle(ids)
        k = max(3, n - tp.below(3)) if n >= 3 else n
        for i in range(k):
            add(order[i], order[(i + 1) % k])
        for i in range(k, n):
            add(order[i], order[tp.below(k)])
        for _ in range(tp.below(2)):
            add(tp.pick(ids), tp.pick(ids))
    elif family == "star":
        order = tp.shuffle(ids)
        c = order[0]
        k = min(n - 1, 2 + tp.below(5))
        for i in range(1, 1 + k):
            add(c, order[i])
        for i in range(1 + k, n):
            add(order[i], order[1 + tp.below(i - 1)] if i > 1 else c)
    return m


def _double(tp, cls, nmax, ids_mode, kmax, alpha=None):
    """a fragment glued to a renamed copy of itself: large automorphism
    groups, meso / chiral diastereomers once decorated"""
    half = skeleton(tp, cls, max(2, nmax // 2), family=tp.pick(
        ["tree", "star", "cycle"]), ids_mode=0, kmax=kmax, nmin=2,
        alpha=alpha)
    n = len(half.atoms)
    ids = draw_ids(tp, 2 * n, ids_mode)
    m = Model(cls)
    left = {a: ids[i] for i, a in enumerate(half.atoms)}
    right = {a: ids[n + i] for i, a in enumerate(half.atoms)}
    for mp in (left, right):
        for a, at in half.atoms.items():
            m.add_atom(mp[a], at["atom_type"])
        for b in half.bonds:
            x, y = tuple(b)
            m.add_bond(mp[x], mp[y])
    # glue
    anchor = tp.pick(list(half.atoms))
    if tp.chance(200):
        m.add_bond(left[anchor], right[anchor])
    m._double = (left, right)  # noqa: SLF001 (used by decorate_double)
    return m


# ---------------------------------------------------------------------------
# roles


def assign_roles(tp: Tape, m: Model, p_role=70):
    if m.cls not in ("CRG", "SCRG"):
        return
    for b, at in m.bonds.items():
        if tp.chance(p_role):
            at["reaction"] = tp.pick(ROLES)


# ---------------------------------------------------------------------------
# descriptors, valid by construction


def _pad(tp, items, k):
    items = list(items) + [None] * (k - len(items))
    return tp.shuffle(items)


def atom_desc(tp: Tape, centre, nbrs, none_parity=0, allow2=True):
    """A descriptor for ``centre`` over exactly its neighbours (padded with
    lone-pair placeholders), random ligand order and parity; or None."""
    nbrs = list(nbrs)
    d = len(nbrs)
    if d == 4:
        if tp.chance(60):
            cls, par = "SquarePlanar", 0
        else:
            cls, par = "Tetrahedral", tp.pick([1, -1])
        atoms = [centre] + tp.shuffle(nbrs)
    elif d == 3 or (d == 2 and allow2):
        cls, par = "Tetrahedral", tp.pick([1, -1])
        atoms = [centre] + _pad(tp, nbrs, 4)
    elif d == 5:
        cls, par = "TrigonalBipyramidal", tp.pick([1, -1])
        atoms = [centre] + tp.shuffle(nbrs)
    elif d == 6:
        cls, par = "Octahedral", tp.pick([1, -1])
        atoms = [centre] + tp.shuffle(nbrs)
    else:
        return None
    if none_parity and tp.chance(none_parity):
        par = None
    return [cls, atoms, par]


def bond_desc(tp: Tape, a, b, na, nb, none_parity=0, p_atrop=50):
    """PlanarBond / AtropBond over bond a-b; na, nb = other neighbours."""
    na, nb = list(na), list(nb)
    if not (1 <= len(na) <= 2 and 1 <= len(nb) <= 2):
        return None
    if tp.chance(p_atrop):
        cls, par = "AtropBond", tp.pick([1, -1])
    else:
        cls, par = "PlanarBond", 0
    if tp.chance(128):
        a, b, na, nb = b, a, nb, na
    atoms = _pad(tp, na, 2) + [a, b] + _pad(tp, nb, 2)
    if none_parity and tp.chance(none_parity):
        par = None
    return [cls, atoms, par]


def _nbrs_in(m: Model, state):
    adj = {a: set() for a in m.atoms}
    for b in m.bonds_in(state):
        x, y = tuple(b)
        adj[x].add(y)
        adj[y].add(x)
    return adj


def decorate(tp: Tape, m: Model, p_atom=150, p_bond=80, none_parity=0,
             p_change=110):
    """Add descriptors (and, for SCRG, stereo changes) valid by
    construction: a descriptor's atoms are the centre / bond atoms and
    exactly their neighbours in the state the descriptor belongs to."""
    if m.cls not in ("SMG", "SCRG"):
        return
    ts = _nbrs_in(m, "ts")
    states = {"broken": _nbrs_in(m, "reactant"),
              "formed": _nbrs_in(m, "product"), "fleeting": ts}
    reaction = m.cls == "SCRG"
    for a in list(m.atoms):
        changed = reaction and any(
            "reaction" in m.bonds[frozenset((a, x))] for x in ts[a])
        if reaction and (changed or tp.chance(70)) and tp.chance(p_change):
            roles = [r for r in ROLES if tp.chance(150)] or [tp.pick(ROLES)]
            ch = {}
            for r in roles:
                d = atom_desc(tp, a, sorted(states[r][a]), none_parity,
                              allow2=False)
                if d is not None:
                    ch[r] = d
            same_nbrs = all(states[r][a] == ts[a] for r in ROLES)
            if len(ch) >= 2 and same_nbrs and tp.chance(110):
                # the very same descriptor in several roles
                first = next(iter(ch.values()))
                ch = {r: first for r in ch}
            if ch:
                m.set_atom_change(**ch)
            if not tp.chance(50):
                continue
            if ch and not changed and tp.chance(128):
                # ... and as the static descriptor as well
                m.set_atom_stereo(next(iter(ch.values())))
                continue
        if not changed and tp.chance(p_atom):
            d = atom_desc(tp, a, sorted(ts[a]), none_parity,
                          allow2=tp.chance(40))
            if d is not None:
                m.set_atom_stereo(d)
    for bond in list(m.bonds):
        a, b = sorted(bond)
        role = m.bonds[bond].get("reaction")
        near_change = reaction and any(
            "reaction" in m.bonds[frozenset((c, x))]
            for c in (a, b) for x in ts[c])
        if reaction and (near_change or tp.chance(30)) and tp.chance(p_change):
            ch = {}
            for r in ROLES:
                if not tp.chance(140):
                    continue
                present = (r == "fleeting"
                           or (r == "broken" and role in (None, "broken"))
                           or (r == "formed" and role in (None, "formed")))
                if not present:
                    continue
                adj = states[r]
                d = bond_desc(tp, a, b, sorted(adj[a] - {b}),
                              sorted(adj[b] - {a}), none_parity)
                if d is not None:
                    ch[r] = d
            if ch:
                m.set_bond_change(**ch)
            continue
        if not near_change and tp.chance(p_bond):
            d = bond_desc(tp, a, b, sorted(ts[a] - {b}), sorted(ts[b] - {a}),
                          none_parity)
            if d is not None:
                m.set_bond_stereo(d)


def attributes(tp: Tape, m: Model, p=40):
    for a, at in m.atoms.items():
        if tp.chance(p):
            at[tp.pick(["charge", "label", "k"])] = tp.pick(
                [0, 1, -1, "x", "y"])
    for b, at in m.bonds.items():
        if tp.chance(p):
            at[tp.pick(["bond_order", "tag"])] = tp.pick([1, 2, "a", 3])


def gen_model(tp: Tape, cls=None, nmax=8, none_parity=0, attrs=False,
              family=None, ids_mode=None, kmax=4, wide=False, nmin=0,
              p_atom=150, p_bond=80, p_role=70, p_change=110, alpha=None):
    if cls is None:
        cls = tp.pick(["MG", "SMG", "CRG", "SCRG"])
    m = skeleton(tp, cls, nmax, family, ids_mode, kmax, wide, nmin,
                 alpha=alpha)
    assign_roles(tp, m, p_role)
    decorate(tp, m, p_atom, p_bond, none_parity, p_change)
    if attrs:
        attributes(tp, m)
    return m


def shuffled_recipe(tp: Tape, m: Model):
    """recipe of m with a drawn insertion order of everything"""
    r = rc.from_model(m)
    for key in ("atoms", "bonds", "atom_stereo", "bond_stereo",
                "atom_changes", "bond_changes"):
        r[key] = tp.shuffle(r[key])
    for b in r["bonds"]:
        if tp.chance(128):
            b[0], b[1] = b[1], b[0]
    if tp.chance(70):
        r["alias"] = True       # equal descriptors are one shared object
    if r["cls"] == "SCRG" and tp.chance(110):
        r["changes_first"] = True   # stereo changes set before static stereo
    return r


def gen_recipe(tp: Tape, **kw):
    return rc.from_model(gen_model(tp, **kw))


# ---------------------------------------------------------------------------
# transformations with a known outcome


def renaming(tp: Tape, atoms, mode=None):
    """bijection old id -> new id (may permute existing ids)"""
    atoms = list(atoms)
    if mode is None:
        mode = tp.weighted([1, 3, 4])
    if mode == 0:
        return {a: a for a in atoms}
    if mode == 1:
        return dict(zip(atoms, tp.shuffle(atoms)))
    new = draw_ids(tp, len(atoms), 2)
    return dict(zip(atoms, new))


def respell_model(tp: Tape, m: Model, improper=True):
    """re-express every descriptor by a random symmetry element of the
    geometric oracle (improper element + flipped parity for chiral ones)"""
    n_changed = 0

    def rs(d):
        nonlocal n_changed
        imp = improper and tp.chance(100)
        d2 = sym.respell(d[0], d[1], d[2], tp.below(48), improper=imp)
        if d2[1] != tuple(d[1]):
            n_changed += 1
        return d2

    out = m.copy()
    out.atom_stereo = {k: rs(d) for k, d in m.atom_stereo.items()}
    out.bond_stereo = {k: rs(d) for k, d in m.bond_stereo.items()}
    out.atom_changes = {k: {r: rs(d) for r, d in ch.items()}
                        for k, ch in m.atom_changes.items()}
    out.bond_changes = {k: {r: rs(d) for r, d in ch.items()}
                        for k, ch in m.bond_changes.items()}
    return out, n_changed


def seed_tape(seed: int, n=3000) -> Tape:
    """A tape derived from a (Hypothesis-drawn) integer; lets a case store a
    transformation as data and re-derive it after the recipe was shrunk."""
    import hashlib
    return Tape(hashlib.shake_256(str(seed).encode()).digest(n))


def variant_from(m: Model, mapping, tseed: int, improper=True):
    """deterministic equal variant of m: rename by ``mapping`` (restricted to
    the atoms present), re-spell and re-order from ``tseed``"""
    mp = {a: b for a, b in mapping if a in m.atoms}
    tp = seed_tape(tseed)
    m2, n_resp = respell_model(tp, m.relabel(mp), improper)
    r2 = shuffled_recipe(tp, m2)
    return r2, {"moved": sum(1 for a, b in mp.items() if a != b),
                "respelled": n_resp}


def equivalent_variant(tp: Tape, m: Model):
    """(recipe of an equal graph, info) : renamed, re-ordered, re-spelled"""
    mp = renaming(tp, m.atoms)
    m2, n_resp = respell_model(tp, m.relabel(mp))
    r2 = shuffled_recipe(tp, m2)
    info = {"moved": sum(1 for a, b in mp.items() if a != b),
            "respelled": n_resp, "mapping": [[a, b] for a, b in mp.items()]}
    return r2, info


# ---------------------------------------------------------------------------
# single-feature mutants (outcome decided by the brute-force oracle)

MUTATIONS = ("element", "add-bond", "del-bond", "move-bond", "role",
             "parity", "swap-ligands", "ez", "change-role", "drop-desc",
             "placeholder", "two-switch")


def mutate(tp: Tape, m: Model):
    """-> (mutant model, kind) or (None, None) if not applicable; the mutant
    stays inside the generated domain (descriptors valid by construction)"""
    from vp.model import validity_error
    for _ in range(4):
        m2, kind = _mutate(tp, m)
        if m2 is None:
            return None, None
        if validity_error(m2) is None:
            return m2, kind
    return None, None


def _mutate(tp: Tape, m: Model):
    m = m.copy()
    kinds = tp.shuffle(MUTATIONS)
    atoms = list(m.atoms)
    for kind in kinds:
        if kind == "element" and atoms:
            a = tp.pick(atoms)
            z = m.atoms[a]["atom_type"]
            pool = [x for x in ELEMENT_POOL[:6] if x != z]
            m.atoms[a]["atom_type"] = tp.pick(pool)
            return m, kind
        if kind == "add-bond" and len(atoms) >= 2:
            cen = _centres(m)
            for _ in range(6):
                a, b = tp.pick(atoms), tp.pick(atoms)
                if a != b and frozenset((a, b)) not in m.bonds \
                        and a not in cen and b not in cen:
                    m.add_bond(a, b)
                    return m, kind
        if kind == "del-bond" and m.bonds:
            b = tp.pick(sorted(m.bonds, key=sorted))
            if not _mentions_bond(m, b):
                del m.bonds[b]
                return m, kind
        if kind == "two-switch" and len(m.bonds) >= 2:
            # a-b, c-d  ->  a-d, c-b : every atom keeps its degree
            cen = _centres(m)
            bl = tp.shuffle(sorted(m.bonds, key=sorted))
            done = False
            for b1 in bl[:6]:
                for b2 in bl[:6]:
                    if b1 & b2 or _mentions_bond(m, b1) or \
                            _mentions_bond(m, b2) or (b1 | b2) & cen:
                        continue
                    a, b = sorted(b1)
                    c, d = sorted(b2)
                    if tp.chance(128):
                        c, d = d, c
                    if frozenset((a, d)) in m.bonds or \
                            frozenset((c, b)) in m.bonds:
                        continue
                    at1, at2 = m.bonds.pop(b1), m.bonds.pop(b2)
                    m.bonds[frozenset((a, d))] = at1
                    m.bonds[frozenset((c, b))] = at2
                    done = True
                    break
                if done:
                    break
            if done:
                return m, kind
            continue
        if kind == "move-bond" and m.bonds and len(atoms) >= 3:
            b = tp.pick(sorted(m.bonds, key=sorted))
            if _mentions_bond(m, b):
                continue
            x, y = sorted(b)
            cen = _centres(m)
            if x in cen:
                continue
            for _ in range(6):
                z = tp.pick(atoms)
                if z not in b and frozenset((x, z)) not in m.bonds \
                        and z not in cen:
                    at = m.bonds.pop(b)
                    m.bonds[frozenset((x, z))] = at
                    return m, kind
        if kind == "role" and m.is_reaction and m.bonds:
            b = tp.pick(sorted(m.bonds, key=sorted))
            if _mentions_bond(m, b, changes_only=True) or (
                    b & _centres(m, changes_only=True)):
                continue
            cur = m.bonds[b].get("reaction")
            new = tp.pick([r for r in (None,) + ROLES if r != cur])
            if new is None:
                del m.bonds[b]["reaction"]
            else:
                m.bonds[b]["reaction"] = new
            return m, kind
        descs = list(m.all_descs())
        if kind in ("parity", "swap-ligands", "ez", "placeholder",
                    "drop-desc", "change-role") and not descs:
            continue
        if kind == "parity":
            cand = [x for x in descs if x[3][2] in (1, -1)]
            if cand:
                k = tp.pick(cand)
                _set_desc(m, k, (k[3][0], k[3][1], -k[3][2]))
                return m, kind
        if kind == "swap-ligands":
            k = tp.pick(descs)
            d = k[3]
            lig = (list(range(1, len(d[1]))) if d[0] in sym.ATOM_CLASSES
                   else [0, 1, 4, 5])
            i, j = tp.pick(lig), tp.pick(lig)
            if i != j and d[1][i] != d[1][j]:
                if d[0] in sym.BOND_CLASSES and {i, j} in ({0, 4}, {0, 5},
                                                            {1, 4}, {1, 5}):
                    continue   # would detach a substituent from its end
                t = list(d[1])
                t[i], t[j] = t[j], t[i]
                _set_desc(m, k, (d[0], tuple(t), d[2]))
                return m, kind
        if kind == "ez":
            cand = [x for x in descs if x[3][0] in sym.BOND_CLASSES]
            if cand:
                k = tp.pick(cand)
                d = k[3]
                t = list(d[1])
                t[4], t[5] = t[5], t[4]
                _set_desc(m, k, (d[0], tuple(t), d[2]))
                return m, kind
        if kind == "placeholder":
            cand = [x for x in descs if None in x[3][1]
                    and x[3][0] in sym.ATOM_CLASSES]
            if cand:
                k = tp.pick(cand)
                d = k[3]
                t = list(d[1])
                i = t.index(None)
                js = [j for j in range(1, len(t)) if t[j] is not None]
                j = tp.pick(js)
                t[i], t[j] = t[j], t[i]
                _set_desc(m, k, (d[0], tuple(t), d[2]))
                return m, kind
        if kind == "drop-desc":
            k = tp.pick(descs)
            _set_desc(m, k, None)
            return m, kind
        if kind == "change-role":
            cand = [x for x in descs if x[2] is not None]
            if cand:
                kd, key, role, d = tp.pick(cand)
                table = m.atom_changes if kd == "atom" else m.bond_changes
                free = [r for r in ROLES if r not in table[key]]
                if free:
                    table[key][tp.pick(free)] = table[key].pop(role)
                    return m, kind
    return None, None


def _centres(m, changes_only=False):
    out = set()
    for kd, key, role, d in m.all_descs():
        if changes_only and role is None:
            continue
        if d[0] in sym.ATOM_CLASSES:
            out.add(d[1][0])
        else:
            out.update(d[1][2:4])
    return out


def _mentions_bond(m, b, changes_only=False):
    """is bond b needed by a descriptor (so removing it would leave an
    invalid decoration)?"""
    for kd, key, role, d in m.all_descs():
        if changes_only and role is None:
            continue
        if kd == "bond" and key == b:
            return True
        if d[0] in sym.ATOM_CLASSES:
            c = d[1][0]
            if c in b and (b - {c}) <= set(d[1][1:]):
                return True
        else:
            x, y = d[1][2], d[1][3]
            if b == frozenset((x, y)):
                return True
            if x in b and (b - {x}) <= set(d[1][0:2]):
                return True
            if y in b and (b - {y}) <= set(d[1][4:6]):
                return True
    return False


def _set_desc(m, k, d):
    kd, key, role, _ = k
    if role is None:
        table = m.atom_stereo if kd == "atom" else m.bond_stereo
        if d is None:
            del table[key]
        else:
            table[key] = d
    else:
        table = m.atom_changes if kd == "atom" else m.bond_changes
        if d is None:
            del table[key][role]
            if not table[key]:
                del table[key]
        else:
            table[key][role] = d


# ---------------------------------------------------------------------------
# structured families that defeat 1-WL colouring (C02/C05/C06)


def ring_cis_trans(tp: Tape, cls="SMG", lone_pair=None):
    """A ring of 4-6 atoms with two stereocentres whose ring neighbours are
    equivalent; returns (model_a, model_b, related) where model_b has the
    second centre inverted (cis <-> trans)."""
    n = tp.pick([4, 5, 6])
    if lone_pair is None:
        lone_pair = tp.chance(128)
    ids = draw_ids(tp, 3 * n, None)
    ring = ids[:n]
    m = Model(cls)
    zr = tp.pick([6, 14, 15])
    for a in ring:
        m.add_atom(a, zr if not lone_pair else 15)
    for i in range(n):
        m.add_bond(ring[i], ring[(i + 1) % n])
    i1 = 0
    i2 = tp.pick([k for k in range(1, n) if k not in (0,)])
    extra = iter(ids[n:])
    for i in range(n):
        a = ring[i]
        if i in (i1, i2):
            if lone_pair:
                x = next(extra)
                m.add_atom(x, 9)
                m.add_bond(a, x)
            else:
                x, y = next(extra), next(extra)
                m.add_atom(x, 9)
                m.add_atom(y, 1)
                m.add_bond(a, x)
                m.add_bond(a, y)
        else:
            if lone_pair:
                x = next(extra)
                m.add_atom(x, 1)
                m.add_bond(a, x)
            else:
                x, y = next(extra), next(extra)
                m.add_atom(x, 1)
                m.add_atom(y, 1)
                m.add_bond(a, x)
                m.add_bond(a, y)
    for i in (i1, i2):
        a = ring[i]
        nb = sorted(m.neighbours(a))
        d = atom_desc(tp, a, nb)
        d[0], d[2] = "Tetrahedral", tp.pick([1, -1])
        if len(d[1]) != 5:
            d[1] = [a] + _pad(tp, nb, 4)
        m.set_atom_stereo(d)
    m2 = m.copy()
    c2 = ring[i2]
    m2.atom_stereo[c2] = sym.invert(m2.atom_stereo[c2])
    return m, m2


def symmetric_double(tp: Tape, cls="SMG", nhalf=4, mirror=None):
    """Two copies of a fragment glued at one atom, decorated so that the
    swap of the halves maps the graph onto itself (same parities) or onto
    its mirror image (inverted parities -> meso / achiral)."""
    m = _double(tp, cls, 2 * nhalf, None, 2)
    left, right = m._double
    sigma = {}
    for a in left:
        sigma[left[a]] = right[a]
        sigma[right[a]] = left[a]
    if mirror is None:
        mirror = tp.chance(128)
    dec = m.copy()
    decorate(tp, dec, p_atom=220, p_bond=120, p_change=0)
    lset = set(left.values())

    def mapd(d):
        t = tuple(None if a is None else sigma[a] for a in d[1])
        par = d[2]
        if mirror and par in (1, -1):
            par = -par
        return (d[0], t, par)

    for k, d in dec.atom_stereo.items():
        if k in lset:
            m.atom_stereo[k] = d
            m.atom_stereo[sigma[k]] = mapd(d)
    for k, d in dec.bond_stereo.items():
        x, y = tuple(k)
        if x in lset and y in lset:
            m.bond_stereo[k] = d
            m.bond_stereo[frozenset((sigma[x], sigma[y]))] = mapd(d)
        elif {sigma[x]} == {y}:       # the glue bond: self-mapped
            d2 = mapd(d)
            from vp import symmetry as _s
            if _s.same_or_unspecified(d, d2):
                m.bond_stereo[k] = d
    return m, mirror


# ---------------------------------------------------------------------------
# regular graphs whose bond roles differ but whose colourings agree


def _regular_bases():
    prism = [(0, 1), (1, 2), (2, 0), (3, 4), (4, 5), (5, 3), (0, 3), (1, 4),
             (2, 5)]
    k33 = [(i, j) for i in range(3) for j in range(3, 6)]
    cube = [(i, i ^ b) for i in range(8) for b in (1, 2, 4) if i < i ^ b]
    c6 = [(i, (i + 1) % 6) for i in range(6)]
    c8 = [(i, (i + 1) % 8) for i in range(8)]
    moebius8 = c8 + [(i, i + 4) for i in range(4)]
    k4 = [(i, j) for i in range(4) for j in range(i + 1, 4)]
    c4 = [(0, 1), (1, 2), (2, 3), (3, 0)]
    pet = ([(i, (i + 1) % 5) for i in range(5)]
           + [(i, i + 5) for i in range(5)]
           + [(5 + i, 5 + (i + 2) % 5) for i in range(5)])
    return {"prism": (6, prism), "k33": (6, k33), "cube": (8, cube),
            "c6": (6, c6), "c8": (8, c8), "moebius8": (8, moebius8),
            "k4": (4, k4), "c4": (4, c4), "petersen": (10, pet)}


def _perfect_matchings(n, edges, limit=400):
    edges = [tuple(sorted(e)) for e in edges]
    out = []

    def rec(free, chosen):
        if len(out) >= limit:
            return
        if not free:
            out.append(list(chosen))
            return
        a = min(free)
        for e in edges:
            if e[0] == a and e[1] in free:
                rec(free - {e[0], e[1]}, chosen + [e])

    rec(frozenset(range(n)), [])
    return out


def regular_role_pair(tp: Tape, cls="CRG"):
    """Two reaction graphs over the same regular skeleton (one element)
    whose role-carrying bonds are two perfect matchings: every atom has the
    same environment in reactant, product and TS, so only the search can
    tell whether the two role patterns are isomorphic."""
    bases = _regular_bases()
    name = tp.pick(sorted(bases))
    n, edges = bases[name]
    pms = _perfect_matchings(n, edges)
    m1, m2 = tp.pick(pms), tp.pick(pms)
    role = tp.pick(ROLES)
    role2 = role if tp.chance(200) else tp.pick(ROLES)
    z = tp.pick([6, 14, 7])

    def build(matching, r):
        m = Model(cls)
        for i in range(n):
            m.add_atom(i, z)
        ms = {tuple(sorted(e)) for e in matching}
        for e in edges:
            e = tuple(sorted(e))
            m.add_bond(e[0], e[1], r if e in ms else None)
        return m

    return build(m1, role), build(m2, role2), name


def random_regular(tp: Tape, cls="MG", z=6):
    """random d-regular skeleton (d 3..5) on 8..14 atoms of one element, by
    repeated pairing of stubs; None if the pairing fails"""
    for _ in range(6):
        d = 3 + tp.below(3)
        n = 8 + tp.below(7)
        if (n * d) % 2:
            n += 1
        stubs = tp.shuffle([i for i in range(n) for _ in range(d)])
        edges = set()
        ok = True
        while stubs:
            a = stubs.pop()
            for k in range(len(stubs) - 1, -1, -1):
                b = stubs[k]
                if b != a and (min(a, b), max(a, b)) not in edges:
                    edges.add((min(a, b), max(a, b)))
                    stubs.pop(k)
                    break
            else:
                ok = False
                break
        if ok:
            m = Model(cls)
            for i in range(n):
                m.add_atom(i, z)
            for a, b in sorted(edges):
                m.add_bond(a, b)
            return m
    return None


def history(tp: Tape, cls, ids, nsteps, elements=(6, 8, 1, 7)):
    """a valid editing history (list of ops) and the model it leads to"""
    from vp import ops as O
    m = Model(cls)
    ops = []
    for _ in range(nsteps):
        op = O.gen_op(tp, m, ids, elements=elements, allow_copy=False)
        if op is None or op[0] == "relabel_copy":
            continue
        m = O.apply_model(m, op)
        ops.append(op)
    return ops, m


HASH_TWINS = [(-1, -2), (8, 8 + 2**61 - 1), (0, 2**61 - 1),
              (5, 5 - (2**61 - 1))]


def collide_ids(tp: Tape, m: Model):
    """rename two atoms (preferably two look-alike neighbours of one atom) to
    ids whose Python hashes coincide; everything else keeps its id unless it
    is in the way"""
    atoms = list(m.atoms)
    if len(atoms) < 2:
        return m
    pairs = []
    for c in atoms:
        nb = sorted(m.neighbours(c), key=atoms.index)
        for i, x in enumerate(nb):
            for y in nb[i + 1:]:
                if m.atoms[x]["atom_type"] == m.atoms[y]["atom_type"]:
                    pairs.append((x, y))
    if pairs and tp.chance(220):
        x, y = tp.pick(pairs)
    else:
        x, y = tp.shuffle(atoms)[:2]
    p, q = tp.pick(HASH_TWINS)
    if tp.chance(128):
        p, q = q, p
    mp = {x: p, y: q}
    fresh = 3000
    for a in atoms:
        if a not in mp and a in (p, q):
            while fresh in m.atoms:
                fresh += 1
            mp[a] = fresh
            fresh += 1
    return m.relabel(mp)


def bis_chelate(tp: Tape, cls="SMG"):
    """square-planar M(L~L)2: two chelate bridges, once spanning adjacent
    positions (cis) and once opposite ones (trans).  Same constitution, all
    donor atoms equivalent under colour refinement; -> (cis, trans)"""
    ids = draw_ids(tp, 12, None)
    mid, don, br = ids[0], ids[1:5], ids[5:7]
    m = Model(cls)
    m.add_atom(mid, tp.pick([78, 46, 28]))
    zd = tp.pick([7, 15, 8])
    for a in don:
        m.add_atom(a, zd)
        m.add_bond(mid, a)
    zb = tp.pick([6, 14])
    long_bridge = tp.chance(128)
    chain = []
    for k, (p, q) in enumerate(((don[0], don[1]), (don[2], don[3]))):
        b = br[k]
        m.add_atom(b, zb)
        m.add_bond(p, b)
        if long_bridge:
            b2 = ids[7 + k]
            m.add_atom(b2, zb)
            m.add_bond(b, b2)
            m.add_bond(b2, q)
        else:
            m.add_bond(b, q)
    cis, trans = m.copy(), m.copy()
    # ring order of SquarePlanar: consecutive positions are adjacent
    cis.set_atom_stereo(["SquarePlanar", [mid, don[0], don[1], don[2], don[3]],
                         0])
    trans.set_atom_stereo(["SquarePlanar",
                           [mid, don[0], don[2], don[1], don[3]], 0])
    return cis, trans


def palindrome_pair(tp: Tape, cls="MG"):
    """two chains X-s-C-D-reversed(s)-Y and X-s-D-C-reversed(s)-Y (X != Y,
    C != D): every atom has the same element and the same neighbour elements
    in both, all atoms are distinguishable, yet the chains are not isomorphic
    -> (m1, m2)"""
    pool = tp.shuffle([6, 7, 8, 15, 16, 9, 17, 35, 14, 5])
    x, y, c, d = pool[:4]
    k = 1 + tp.below(3)
    seg = [tp.pick(pool[4:]) for _ in range(k)]
    ids = draw_ids(tp, 2 * k + 4, None)
    out = []
    for mid in ((c, d), (d, c)):
        els = [x] + seg + list(mid) + seg[::-1] + [y]
        m = Model(cls)
        for a, z in zip(ids, els):
            m.add_atom(a, z)
        for a, b in zip(ids, ids[1:]):
            m.add_bond(a, b)
        out.append(m)
    return out[0], out[1]
