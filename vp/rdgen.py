"""RDKit molecule generators (tape driven, constructive)."""
from __future__ import annotations

from rdkit import Chem, RDLogger

RDLogger.DisableLog("rdApp.*")

VALENCE = {6: 4, 7: 3, 8: 2, 16: 2, 9: 1, 17: 1, 35: 1, 53: 1, 15: 3}
HEAVY = [6, 6, 6, 6, 7, 8, 8, 16, 9, 17, 35]


def smiles_params():
    p = Chem.SmilesParserParams()
    p.removeHs = False
    return p


def mol_from_smiles(smi, add_hs=True):
    m = Chem.MolFromSmiles(smi)
    if m is None:
        return None
    return Chem.AddHs(m) if add_hs else m


def organic_skeleton(tp, max_heavy=9, rings=True, double=True,
                     aromatic=True):
    """random heavy-atom skeleton within standard valences -> RWMol
    (no stereo yet) or None"""
    rw = Chem.RWMol()
    free = []
    n = 2 + tp.below(max_heavy - 1)

    def add(z):
        i = rw.AddAtom(Chem.Atom(z))
        free.append(VALENCE[z])
        return i

    if aromatic and tp.chance(60):
        # start from an aromatic / hetero ring template
        tpl = tp.pick(["c1ccccc1", "c1ccncc1", "c1ccsc1", "c1cc[nH]c1",
                       "C1CCCCC1", "C1CCCC1", "C1=CCCCC1", "C1CC1",
                       "C1=CCCCCC1", "C1=COCCCC1", "C1=CCCCCCC1",
                       "C1CCCCCC1", "C1=CCC1"])
        m = Chem.MolFromSmiles(tpl)
        Chem.Kekulize(m, clearAromaticFlags=True)
        rw = Chem.RWMol(m)
        free = []
        for a in rw.GetAtoms():
            a.SetNoImplicit(False)
            used = sum(int(b.GetBondTypeAsDouble()) for b in a.GetBonds())
            h = a.GetNumExplicitHs()
            free.append(VALENCE[a.GetAtomicNum()] - used - h)
    else:
        add(6)
    while rw.GetNumAtoms() < n:
        cands = [i for i, f in enumerate(free) if f > 0]
        if not cands:
            break
        p = tp.pick(cands)
        z = tp.pick(HEAVY)
        i = add(z)
        rw.AddBond(p, i, Chem.BondType.SINGLE)
        free[p] -= 1
        free[i] -= 1
    if rings and tp.chance(70):
        cands = [i for i, f in enumerate(free) if f > 0]
        if len(cands) >= 2:
            a, b = tp.pick(cands), tp.pick(cands)
            if a != b and rw.GetBondBetweenAtoms(a, b) is None:
                path = Chem.GetShortestPath(rw, a, b)
                if len(path) >= 3:
                    rw.AddBond(a, b, Chem.BondType.SINGLE)
                    free[a] -= 1
                    free[b] -= 1
    if double:
        for b in list(rw.GetBonds()):
            i, j = b.GetBeginAtomIdx(), b.GetEndAtomIdx()
            if b.GetBondType() == Chem.BondType.SINGLE and free[i] > 0 \
                    and free[j] > 0 and tp.chance(60):
                b.SetBondType(Chem.BondType.DOUBLE)
                free[i] -= 1
                free[j] -= 1
    try:
        m = rw.GetMol()
        Chem.SanitizeMol(m)
        # round trip so that the molecule behaves like a parsed one
        m = Chem.MolFromSmiles(Chem.MolToSmiles(m))
    except Exception:
        return None
    return m


def assign_random_stereo(tp, m):
    """draw a configuration for every potential stereo element; returns a
    molecule as RDKit parses it back from SMILES (Z/E + CW/CCW) with
    explicit hydrogens, or None"""
    m = Chem.Mol(m)
    try:
        infos = Chem.FindPotentialStereo(m, cleanIt=True, flagPossible=True)
    except Exception:
        return None
    for si in infos:
        if si.type == Chem.StereoType.Atom_Tetrahedral:
            a = m.GetAtomWithIdx(si.centeredOn)
            a.SetChiralTag(tp.pick([Chem.ChiralType.CHI_TETRAHEDRAL_CW,
                                    Chem.ChiralType.CHI_TETRAHEDRAL_CCW]))
        elif si.type == Chem.StereoType.Bond_Double:
            b = m.GetBondWithIdx(si.centeredOn)
            ca = list(si.controllingAtoms)
            no = Chem.StereoInfo.NOATOM
            left = [x for x in ca[:2] if x != no]
            right = [x for x in ca[2:] if x != no]
            if not left or not right:
                continue
            b.SetStereoAtoms(left[0], right[0])
            b.SetStereo(tp.pick([Chem.BondStereo.STEREOCIS,
                                 Chem.BondStereo.STEREOTRANS]))
    try:
        smi = Chem.MolToSmiles(m)
        m2 = Chem.MolFromSmiles(smi)
        if m2 is None:
            return None
        return smi
    except Exception:
        return None


def fully_specified(m):
    """no potential stereo element is left unspecified"""
    try:
        infos = Chem.FindPotentialStereo(m, cleanIt=False, flagPossible=True)
    except Exception:
        return False
    return all(si.specified == Chem.StereoSpecified.Specified
               for si in infos)


def organic_smiles(tp, max_heavy=9, **kw):
    """SMILES of a random organic molecule with every stereo element
    assigned (or None)"""
    for _ in range(4):
        m = organic_skeleton(tp, max_heavy, **kw)
        if m is None:
            continue
        smi = assign_random_stereo(tp, m)
        if smi is None:
            continue
        return smi
    return None


LIG = ["F", "Cl", "Br", "I", "[H]", "O", "N", "C", "S"]
CENTRE = {"SP": ["Pt", "Pd", "Ni"], "TB": ["P", "As", "Fe"],
          "OH": ["Fe", "Co", "S", "Pt"], "TH": ["C", "Si", "P", "Ge"]}
NLABEL = {"SP": 3, "TB": 20, "OH": 30, "TH": 2}
NLIG = {"SP": 4, "TB": 5, "OH": 6, "TH": 4}


def complex_smiles(kind, centre, ligands, label):
    """SMILES of a single-centre complex, first ligand written before the
    centre (RDKit neighbour order = ligand order)"""
    if kind == "TH":
        tag = "@" if label == 1 else "@@"
    else:
        tag = f"@{kind}{label}"
    first, rest = ligands[0], ligands[1:]
    return f"{first}[{centre}{tag}]" + "".join(
        f"({x})" for x in rest[:-1]) + rest[-1]
