"""Editing operations, read-only queries and ill-formed requests as data.

op = [name, *args] (JSON-able).  ``apply_model`` defines the reference
semantics and the precondition of every *valid* operation (HarnessError when
violated, so delta debugging cannot drift out of the domain);
``apply_real`` calls the public API.
"""
from __future__ import annotations

from vp import recipes as rc
from vp import symmetry as sym
from vp.harness import HarnessError
from vp.model import Model, ROLES, desc, desc_bond, desc_centre, fs

ATTR_NAMES = ("k", "label")
ATTR_VALUES = (1, 2, "x")


def _need(cond, msg):
    if not cond:
        raise HarnessError(f"op precondition: {msg}")


# ---------------------------------------------------------------------------
# reference semantics


def apply_model(m: Model, op):
    """-> new Model (the old one is not modified)"""
    m = m.copy()
    name = op[0]
    if name == "add_atom":
        _, a, z, attrs = op
        _need(a not in m.atoms, "new atom id")
        m.add_atom(a, z, **attrs)
    elif name == "remove_atom":
        _need(op[1] in m.atoms, "atom exists")
        m.remove_atom(op[1])
    elif name == "add_bond":
        _, a, b, role, attrs = op
        _need(a in m.atoms and b in m.atoms and a != b, "two atoms")
        _need(fs(a, b) not in m.bonds, "bond is new")
        _need(role is None or m.is_reaction, "role only on reaction graphs")
        m.add_bond(a, b, role, **attrs)
    elif name == "bonds_from_matrix":
        # bonds_from_bond_order_matrix: entry (i, j) above the threshold adds
        # a bond between the atoms whose ids are i and j
        _, mat, with_bo = op
        n = len(mat)
        _need(sorted(m.atoms) == list(range(n)) and n >= 2, "ids are 0..n-1")
        for i in range(n):
            for j in range(n):
                if mat[i][j] > 0.5:
                    _need(i != j and (fs(i, j) not in m.bonds
                                      or mat[j][i] == mat[i][j]),
                          "only new bonds, consistent values")
                    if fs(i, j) not in m.bonds:
                        m.add_bond(i, j, None, **(
                            {"bond_order": mat[i][j]} if with_bo else {}))
    elif name == "remove_bond":
        _need(fs(op[1], op[2]) in m.bonds, "bond exists")
        m.remove_bond(op[1], op[2])
    elif name == "set_atom_attr":
        _, a, k, v = op
        _need(a in m.atoms, "atom exists")
        _need(k != "atom_type" or v in range(1, 119), "element")
        m.atoms[a][k] = v
    elif name == "del_atom_attr":
        _, a, k = op
        _need(a in m.atoms and k in m.atoms[a] and k != "atom_type", "attr")
        del m.atoms[a][k]
    elif name == "set_bond_attr":
        _, a, b, k, v = op
        _need(fs(a, b) in m.bonds, "bond exists")
        if k == "reaction":
            _need(m.is_reaction and v in ROLES, "role")
        m.bonds[fs(a, b)][k] = v
    elif name == "del_bond_attr":
        _, a, b, k = op
        _need(fs(a, b) in m.bonds and k in m.bonds[fs(a, b)], "attr")
        del m.bonds[fs(a, b)][k]
    elif name == "set_atom_stereo":
        d = desc(op[1])
        _need(m.is_stereo and d[0] in sym.ATOM_CLASSES, "class")
        _need(all(a is None or a in m.atoms for a in d[1])
              and d[1][0] is not None, "atoms exist")
        m.set_atom_stereo(d)
    elif name == "del_atom_stereo":
        _need(op[1] in m.atom_stereo, "descriptor exists")
        del m.atom_stereo[op[1]]
    elif name == "set_bond_stereo":
        d = desc(op[1])
        _need(m.is_stereo and d[0] in sym.BOND_CLASSES, "class")
        _need(all(a is None or a in m.atoms for a in d[1]), "atoms exist")
        _need(None not in d[1][2:4] and desc_bond(d) in m.bonds, "bond")
        m.set_bond_stereo(d)
    elif name == "del_bond_stereo":
        _need(fs(op[1], op[2]) in m.bond_stereo, "descriptor exists")
        del m.bond_stereo[fs(op[1], op[2])]
    elif name == "set_atom_change":
        ch = {r: desc(d) for r, d in op[1].items()}
        _need(m.cls == "SCRG" and ch and set(ch) <= set(ROLES), "roles")
        _need(len({desc_centre(d) for d in ch.values()}) == 1, "one centre")
        for d in ch.values():
            _need(d[0] in sym.ATOM_CLASSES and d[1][0] in m.atoms
                  and all(a is None or a in m.atoms for a in d[1]), "atoms")
        m.set_atom_change(**ch)
    elif name == "del_atom_change":
        _, a, role = op
        _need(a in m.atom_changes, "change exists")
        if role is None:
            del m.atom_changes[a]
        else:
            _need(role in m.atom_changes[a], "role exists")
            del m.atom_changes[a][role]
            if not m.atom_changes[a]:
                del m.atom_changes[a]
    elif name == "set_bond_change":
        ch = {r: desc(d) for r, d in op[1].items()}
        _need(m.cls == "SCRG" and ch and set(ch) <= set(ROLES), "roles")
        _need(len({desc_bond(d) for d in ch.values()}) == 1, "one bond")
        for d in ch.values():
            _need(d[0] in sym.BOND_CLASSES and None not in d[1][2:4]
                  and desc_bond(d) in m.bonds
                  and all(a is None or a in m.atoms for a in d[1]), "atoms")
        m.set_bond_change(**ch)
    elif name == "del_bond_change":
        _, a, b, role = op
        k = fs(a, b)
        _need(k in m.bond_changes, "change exists")
        if role is None:
            del m.bond_changes[k]
        else:
            _need(role in m.bond_changes[k], "role exists")
            del m.bond_changes[k][role]
            if not m.bond_changes[k]:
                del m.bond_changes[k]
    elif name in ("relabel_inplace", "relabel_copy"):
        mp = {a: b for a, b in op[1]}
        new = [mp.get(a, a) for a in m.atoms]
        _need(len(set(new)) == len(new), "injective on the atom set")
        _need(set(mp) <= set(m.atoms), "maps existing atoms")
        m = m.relabel(mp)
    elif name in ("copy", "copy_ctor"):
        pass
    else:
        raise HarnessError(f"unknown op {op}")
    return m


# ---------------------------------------------------------------------------
# the real thing


def apply_real(g, op, pool=None):
    """-> graph after the operation (possibly a new object).  With a
    ``pool`` (dict) descriptors of identical class / atoms / parity are one
    shared Python object across the whole history."""
    name = op[0]

    class _Mk:
        @staticmethod
        def mk_desc(d):
            if pool is None:
                return _rc_mk(d)
            key = (d[0], tuple(d[1]), d[2])
            if key not in pool:
                pool[key] = _rc_mk(d)
            return pool[key]

        add_bond_real = staticmethod(_rc_add_bond)
        change_enum = staticmethod(_rc_change_enum)

    rc = _Mk      # noqa: F841  (shadows the module inside this function)
    if name == "add_atom":
        g.add_atom(op[1], op[2], **op[3])
    elif name == "remove_atom":
        g.remove_atom(op[1])
    elif name == "add_bond":
        rc.add_bond_real(g, op[1], op[2], op[3], op[4])
    elif name == "bonds_from_matrix":
        import numpy as np
        g.bonds_from_bond_order_matrix(np.array(op[1], dtype=float),
                                       include_bond_order=bool(op[2]))
    elif name == "remove_bond":
        g.remove_bond(op[1], op[2])
    elif name == "set_atom_attr":
        g.set_atom_attribute(op[1], op[2], op[3])
    elif name == "del_atom_attr":
        g.delete_atom_attribute(op[1], op[2])
    elif name == "set_bond_attr":
        v = rc.change_enum(op[4]) if op[3] == "reaction" else op[4]
        g.set_bond_attribute(op[1], op[2], op[3], v)
    elif name == "del_bond_attr":
        g.delete_bond_attribute(op[1], op[2], op[3])
    elif name == "set_atom_stereo":
        g.set_atom_stereo(rc.mk_desc(op[1]))
    elif name == "del_atom_stereo":
        g.delete_atom_stereo(op[1])
    elif name == "set_bond_stereo":
        g.set_bond_stereo(rc.mk_desc(op[1]))
    elif name == "del_bond_stereo":
        g.delete_bond_stereo((op[1], op[2]))
    elif name == "set_atom_change":
        g.set_atom_stereo_change(**{r: rc.mk_desc(d)
                                    for r, d in op[1].items()})
    elif name == "del_atom_change":
        g.delete_atom_stereo_change(
            op[1], None if op[2] is None else rc.change_enum(op[2]))
    elif name == "set_bond_change":
        g.set_bond_stereo_change(**{r: rc.mk_desc(d)
                                    for r, d in op[1].items()})
    elif name == "del_bond_change":
        g.delete_bond_stereo_change(
            (op[1], op[2]), None if op[3] is None else rc.change_enum(op[3]))
    elif name == "relabel_inplace":
        g.relabel_atoms({a: b for a, b in op[1]}, copy=False)
    elif name == "relabel_copy":
        g = g.relabel_atoms({a: b for a, b in op[1]}, copy=True)
    elif name == "copy":
        g = g.copy()
    elif name == "copy_ctor":
        g = type(g)(g)
    else:
        raise HarnessError(f"unknown op {op}")
    return g


_rc_mk = rc.mk_desc
_rc_add_bond = rc.add_bond_real
_rc_change_enum = rc.change_enum


def sibling_use(descs):
    """descriptors of the OTHER classes of equal length over the very same
    atom tuples are compared, hashed and mirrored earlier in the process
    (both parities, so that symmetry images AND mirror images are worked
    out); nothing of this may influence what follows.  descs: iterable of
    (class name, atoms, parity)."""
    import itertools
    import stereomolgraph.stereodescriptors as sd
    fam = {5: ("Tetrahedral", "SquarePlanar"),
           6: ("AtropBond", "PlanarBond", "TrigonalBipyramidal")}
    for d in descs:
        for name_ in fam.get(len(d[1]), ()):
            if name_ == d[0]:
                continue
            C_ = getattr(sd, name_)
            ps = (0,) if name_ in ("SquarePlanar", "PlanarBond") else (1, -1)
            t_ = tuple(d[1])
            for q_ in itertools.islice(itertools.permutations(t_[1:]), 4):
                o_ = t_[:1] + q_
                for p_, p2_ in itertools.product(ps, ps):
                    x_ = C_(t_, p_)
                    x_ == C_(o_, p2_)          # noqa: B015
                    hash(x_)


def pre_use(g, k):
    """read-only uses of a graph before the operation under test (their
    results are discarded): 1 hash, 2 compared as right-hand operand,
    3 both and a few views.  Nothing of this may change what follows."""
    if not k:
        return
    if k in (1, 3):
        hash(g)
    if k in (2, 3):
        c = g.copy()
        c == g          # noqa: B015
        g == c          # noqa: B015
    if k == 3:
        str(g)
        list(g.connected_components())
        for name, keys in (("atom_stereo_changes", list(g.atoms)[:3]),
                           ("bond_stereo_changes",
                            [frozenset(b) for b in list(g.bonds)[:3]])):
            t = getattr(g, name, None)
            if t is not None:
                for key in keys:
                    try:
                        t[key]
                    except KeyError:
                        pass
        for b in list(g.bonds)[:3]:
            for nm in ("get_bond_stereo_change", "get_bond_stereo"):
                f = getattr(g, nm, None)
                if f is not None:
                    f(tuple(b))


def replay_model(cls, ops):
    m = Model(cls)
    for op in ops:
        m = apply_model(m, op)
    return m


# ---------------------------------------------------------------------------
# read-only queries:  [name, *args]

WHOLE = ("eq-self", "eq-copy", "hash", "str", "matrix", "components", "json",
         "to_rdmol", "len", "stereo-valid", "reverse", "enantiomer")


def run_query(g, q):
    """Execute a read-only query; the result is discarded.  Exceptions
    propagate to the caller."""
    name = q[0]
    if name == "has_atom":
        g.has_atom(q[1])
    elif name == "get_atom_type":
        g.get_atom_type(q[1])
    elif name == "get_atom_attribute":
        g.get_atom_attribute(q[1], q[2])
    elif name == "get_atom_attributes":
        g.get_atom_attributes(q[1])
    elif name == "get_atom_attributes-list":
        g.get_atom_attributes(q[1], [q[2]])
    elif name == "bonded_to":
        g.bonded_to(q[1])
    elif name == "has_bond":
        g.has_bond(q[1], q[2])
    elif name == "get_bond_attribute":
        g.get_bond_attribute(q[1], q[2], q[3])
    elif name == "get_bond_attributes":
        g.get_bond_attributes(q[1], q[2])
    elif name == "get_bond_attributes-list":
        g.get_bond_attributes(q[1], q[2], [q[3]])
    elif name == "node_connected_component":
        g.node_connected_component(q[1])
    elif name == "get_atom_stereo":
        g.get_atom_stereo(q[1])
    elif name == "get_bond_stereo":
        g.get_bond_stereo((q[1], q[2]))
    elif name == "get_atom_stereo_change":
        g.get_atom_stereo_change(q[1])
    elif name == "get_bond_stereo_change":
        g.get_bond_stereo_change((q[1], q[2]))
    elif name == "atom_stereo_changes-getitem":
        g.atom_stereo_changes.get(q[1])
    elif name == "neighbors-get":
        g.neighbors.get(q[1])
    elif name == "active_atoms":
        g.active_atoms(q[1])
    elif name == "eq-self":
        g == g  # noqa: B015
    elif name == "eq-copy":
        g == g.copy()  # noqa: B015
    elif name == "hash":
        hash(g)
    elif name == "str":
        str(g)
        repr(g)
    elif name == "matrix":
        g.connectivity_matrix()
    elif name == "components":
        g.connected_components()
    elif name == "len":
        len(g)
        g.n_atoms
    elif name == "json":
        from stereomolgraph.experimental import JSONHandler
        JSONHandler.json_serialize(g)
    elif name == "to_rdmol":
        g._to_rdmol()
    elif name == "stereo-valid":
        g.is_stereo_valid()
    elif name == "reactant":
        g.reactant()
        g.product()
    elif name == "reverse":
        g.reverse_reaction()
    elif name == "enantiomer":
        g.enantiomer()
    elif name == "stereo_changes-index":
        # plain indexing of the public tables (may raise KeyError)
        for t, key in ((g.atom_stereo_changes, q[1]),
                       (g.bond_stereo_changes, frozenset((q[1], q[2])))):
            try:
                t[key]
            except KeyError:
                pass
    elif name == "formed":
        g.get_formed_bonds()
        g.get_broken_bonds()
        g.get_fleeting_bonds()
    else:
        raise HarnessError(f"unknown query {q}")


def query_available(cls, q):
    name = q[0]
    if name in ("get_atom_stereo", "get_bond_stereo", "stereo-valid"):
        return cls in ("SMG", "SCRG")
    if name in ("get_atom_stereo_change", "get_bond_stereo_change",
                "atom_stereo_changes-getitem"):
        return cls == "SCRG"
    if name in ("active_atoms", "reactant", "formed", "reverse"):
        return cls in ("CRG", "SCRG")
    if name == "enantiomer":
        return cls in ("SMG", "SCRG")
    if name == "stereo_changes-index":
        return cls == "SCRG"
    return True


def query_must_not_raise(m: Model, q):
    """Queries about present atoms / bonds and whole-graph queries on a
    coherent state have to answer; export may refuse; lookups of absent keys
    may raise or answer."""
    name = q[0]
    if name == "to_rdmol":
        return False
    if name in ("get_atom_attributes-list",):
        return q[1] in m.atoms and q[2] in m.atoms[q[1]]
    if name in ("get_bond_attributes-list",):
        return False
    if name in ("has_atom", "has_bond", "neighbors-get",
                "atom_stereo_changes-getitem"):
        return True
    if name in ("get_atom_type", "get_atom_attribute", "get_atom_attributes",
                "bonded_to", "node_connected_component", "get_atom_stereo",
                "get_atom_stereo_change"):
        return q[1] in m.atoms
    if name in ("get_bond_attribute", "get_bond_attributes",
                "get_bond_stereo", "get_bond_stereo_change"):
        return fs(q[1], q[2]) in m.bonds if q[1] != q[2] else False
    if name in ("str", "matrix", "components", "len", "json", "formed",
                "stereo-valid", "active_atoms"):
        return True
    if name == "stereo_changes-index":
        return True
    if name in ("eq-self", "eq-copy", "hash", "reactant", "reverse",
                "enantiomer"):
        from vp.model import validity_error
        return validity_error(m, strict=False) is None
    return False


# ---------------------------------------------------------------------------
# generators (tape driven, relative to the current model state)


def _some_desc_atoms(tp, m, centre, k):
    """k ligand slots filled with existing atoms (distinct) / placeholders"""
    others = [a for a in m.atoms if a != centre]
    others = tp.shuffle(others)[:k]
    return tp.shuffle(others + [None] * (k - len(others)))


def gen_atom_desc(tp, m, centre=None):
    atoms = list(m.atoms)
    if not atoms:
        return None
    c = centre if centre is not None else tp.pick(atoms)
    cls = tp.pick(["Tetrahedral", "Tetrahedral", "SquarePlanar",
                   "TrigonalBipyramidal", "Octahedral"])
    k = sym.NPOS[cls] - 1
    nb = sorted(m.neighbours(c))
    if len(nb) == k or (len(nb) < k and tp.chance(200)):
        lig = tp.shuffle(nb + [None] * (k - len(nb)))
    else:
        lig = _some_desc_atoms(tp, m, c, k)
    par = tp.pick(list(sym.parity_for_class(cls, 0)) + [None])
    return [cls, [c] + lig, par]


def gen_bond_desc(tp, m, bond=None):
    bonds = sorted(m.bonds, key=sorted)
    if not bonds:
        return None
    b = bond if bond is not None else tp.pick(bonds)
    x, y = tp.shuffle(sorted(b))
    cls = tp.pick(["PlanarBond", "AtropBond"])

    def side(c, other):
        nb = sorted(m.neighbours(c) - {other})[:2]
        return tp.shuffle(nb + [None] * (2 - len(nb)))

    par = tp.pick(list(sym.parity_for_class(cls, 0)) + [None])
    return [cls, side(x, y) + [x, y] + side(y, x), par]


def gen_op(tp, m: Model, ids, elements=(6, 8), allow_relabel=True,
           allow_copy=True):
    """One valid operation for model state m (or None)."""
    atoms = list(m.atoms)
    bonds = sorted(m.bonds, key=sorted)
    free = [i for i in ids if i not in m.atoms]
    choices = []
    if free:
        choices += ["add_atom"] * 5
    if atoms:
        choices += ["remove_atom"] * 2 + ["set_atom_attr"] * 2
        if any(k != "atom_type" for a in atoms for k in m.atoms[a]):
            choices += ["del_atom_attr"]
    if len(atoms) >= 2:
        choices += ["add_bond"] * 5
        if sorted(atoms) == list(range(len(atoms))):
            choices += ["bonds_from_matrix"] * 2
    if bonds:
        choices += ["remove_bond"] * 2 + ["set_bond_attr"] * 2
        if any(m.bonds[b] for b in bonds):
            choices += ["del_bond_attr"]
    if m.is_stereo and atoms:
        choices += ["set_atom_stereo"] * 3
        if m.atom_stereo:
            choices += ["del_atom_stereo"]
        if bonds:
            choices += ["set_bond_stereo"] * 2
        if m.bond_stereo:
            choices += ["del_bond_stereo"]
    if m.cls == "SCRG" and atoms:
        choices += ["set_atom_change"] * 2
        if m.atom_changes:
            choices += ["del_atom_change"]
        if bonds:
            choices += ["set_bond_change"] * 2
        if m.bond_changes:
            choices += ["del_bond_change"]
    if allow_relabel and atoms:
        choices += ["relabel_inplace"] * 2 + ["relabel_copy"]
    if allow_copy and atoms:
        choices += ["copy", "copy_ctor"]
    if not choices:
        return None
    name = tp.pick(choices)
    if name == "add_atom":
        attrs = {}
        if tp.chance(60):
            attrs[tp.pick(ATTR_NAMES)] = tp.pick(ATTR_VALUES)
        return ["add_atom", tp.pick(free), tp.pick(elements), attrs]
    if name == "remove_atom":
        return ["remove_atom", tp.pick(atoms)]
    if name == "add_bond":
        for _ in range(8):
            a, b = tp.pick(atoms), tp.pick(atoms)
            if a != b and fs(a, b) not in m.bonds:
                role = (tp.pick((None, None) + ROLES) if m.is_reaction
                        else None)
                attrs = {}
                if tp.chance(50):
                    attrs[tp.pick(ATTR_NAMES)] = tp.pick(ATTR_VALUES)
                return ["add_bond", a, b, role, attrs]
        return None
    if name == "bonds_from_matrix":
        n = len(atoms)
        mat = [[0] * n for _ in range(n)]
        some = False
        for i in range(n):
            for j in range(i + 1, n):
                if fs(i, j) not in m.bonds and tp.chance(90):
                    v = tp.pick([1, 1, 2])
                    k = tp.below(3)         # upper / lower / both triangles
                    if k in (0, 2):
                        mat[i][j] = v
                    if k in (1, 2):
                        mat[j][i] = v
                    some = True
        if not some:
            return None
        return ["bonds_from_matrix", mat, tp.chance(128)]
    if name == "remove_bond":
        return ["remove_bond", *sorted(tp.pick(bonds))]
    if name == "set_atom_attr":
        if tp.chance(40):
            return ["set_atom_attr", tp.pick(atoms), "atom_type",
                    tp.pick(elements)]
        return ["set_atom_attr", tp.pick(atoms), tp.pick(ATTR_NAMES),
                tp.pick(ATTR_VALUES)]
    if name == "del_atom_attr":
        c = [(a, k) for a in atoms for k in m.atoms[a] if k != "atom_type"]
        a, k = tp.pick(c)
        return ["del_atom_attr", a, k]
    if name == "set_bond_attr":
        b = sorted(tp.pick(bonds))
        if m.is_reaction and tp.chance(70):
            return ["set_bond_attr", *b, "reaction", tp.pick(ROLES)]
        return ["set_bond_attr", *b, tp.pick(ATTR_NAMES),
                tp.pick(ATTR_VALUES)]
    if name == "del_bond_attr":
        c = [(b, k) for b in bonds for k in m.bonds[b]]
        b, k = tp.pick(c)
        return ["del_bond_attr", *sorted(b), k]
    if name == "set_atom_stereo":
        return ["set_atom_stereo", gen_atom_desc(tp, m)]
    if name == "del_atom_stereo":
        return ["del_atom_stereo", tp.pick(list(m.atom_stereo))]
    if name == "set_bond_stereo":
        return ["set_bond_stereo", gen_bond_desc(tp, m)]
    if name == "del_bond_stereo":
        return ["del_bond_stereo",
                *sorted(tp.pick(sorted(m.bond_stereo, key=sorted)))]
    if name == "set_atom_change":
        c = tp.pick(atoms)
        roles = [r for r in ROLES if tp.chance(128)] or [tp.pick(ROLES)]
        if m.atom_stereo and tp.chance(60):
            # the atom's static descriptor once more, in every drawn role
            c = tp.pick(list(m.atom_stereo))
            d = m.atom_stereo[c]
            return ["set_atom_change",
                    {r: [d[0], list(d[1]), d[2]] for r in roles}]
        if len(roles) >= 2 and tp.chance(50):
            d = gen_atom_desc(tp, m, c)
            return ["set_atom_change", {r: d for r in roles}]
        return ["set_atom_change",
                {r: gen_atom_desc(tp, m, c) for r in roles}]
    if name == "del_atom_change":
        a = tp.pick(list(m.atom_changes))
        role = None if tp.chance(128) else tp.pick(sorted(m.atom_changes[a]))
        return ["del_atom_change", a, role]
    if name == "set_bond_change":
        b = tp.pick(bonds)
        roles = [r for r in ROLES if tp.chance(128)] or [tp.pick(ROLES)]
        return ["set_bond_change",
                {r: gen_bond_desc(tp, m, b) for r in roles}]
    if name == "del_bond_change":
        b = tp.pick(sorted(m.bond_changes, key=sorted))
        role = None if tp.chance(128) else tp.pick(sorted(m.bond_changes[b]))
        return ["del_bond_change", *sorted(b), role]
    if name in ("relabel_inplace", "relabel_copy"):
        k = 1 + tp.below(len(atoms))
        src = tp.shuffle(atoms)[:k]
        kind = tp.below(3)
        if kind == 0 and k >= 2:            # permute among themselves
            dst = src[1:] + src[:1]
        else:                               # fresh targets
            pool = [i for i in ids if i not in m.atoms]
            big, v = [], 10**6
            while len(big) < k:
                if v not in m.atoms:
                    big.append(v)
                v += 1
            dst = (tp.shuffle(pool) + big)[:k]
        return [name, [[a, b] for a, b in zip(src, dst)]]
    return [name]


def gen_query(tp, m: Model, ids):
    atoms = list(m.atoms)
    absent = [i for i in ids if i not in m.atoms] + [-777]
    a = tp.pick(atoms) if atoms and tp.chance(128) else tp.pick(absent)
    b = tp.pick(atoms) if atoms and tp.chance(150) else tp.pick(absent)
    if m.bonds and tp.chance(100):
        a, b = sorted(tp.pick(sorted(m.bonds, key=sorted)))
    names = ["has_atom", "get_atom_type", "get_atom_attribute",
             "get_atom_attributes", "get_atom_attributes-list", "bonded_to",
             "has_bond", "get_bond_attribute", "get_bond_attributes",
             "get_bond_attributes-list", "node_connected_component",
             "neighbors-get", "eq-self", "eq-copy", "hash", "str", "matrix",
             "components", "json", "to_rdmol", "len"]
    if m.is_stereo:
        names += ["get_atom_stereo", "get_bond_stereo", "stereo-valid",
                  "enantiomer"]
    if m.cls == "SCRG":
        names += ["get_atom_stereo_change", "get_bond_stereo_change",
                  "atom_stereo_changes-getitem", "stereo_changes-index",
                  "stereo_changes-index"]
    if m.is_reaction:
        names += ["active_atoms", "reactant", "formed", "reverse"]
    name = tp.pick(names)
    if name in ("has_atom", "get_atom_type", "get_atom_attributes",
                "bonded_to", "node_connected_component", "get_atom_stereo",
                "get_atom_stereo_change", "atom_stereo_changes-getitem",
                "neighbors-get"):
        return [name, a]
    if name in ("get_atom_attribute", "get_atom_attributes-list"):
        return [name, a, tp.pick(ATTR_NAMES + ("atom_type",))]
    if name in ("has_bond", "get_bond_attributes", "get_bond_stereo",
                "get_bond_stereo_change", "stereo_changes-index"):
        return [name, a, b]
    if name in ("get_bond_attribute", "get_bond_attributes-list"):
        return [name, a, b, tp.pick(ATTR_NAMES + ("reaction",))]
    if name == "active_atoms":
        return [name, tp.below(3)]
    return [name]


# ---------------------------------------------------------------------------
# ill-formed editing requests (C19):  [kind, *args]

BAD_ELEMENTS = ("Xx", 0, 119, -6, "carbon")


import enum as _enum


class _ForeignLabel(_enum.Enum):
    """a label from somebody else's enum with the same value"""
    FORMED = "formed"
    BROKEN = "broken"


class _ForeignInt(_enum.IntEnum):
    FORMED = 1


def _label(v):
    if v == "ENUM:FORMED":
        return _ForeignLabel.FORMED
    if v == "INTENUM:1":
        return _ForeignInt.FORMED
    return v


def _fresh(x):
    """an equal but separately created id (as a caller gets from parsing):
    large ints are then distinct objects"""
    return int(str(x)) if type(x) is int else x


def apply_fault(g, f):
    """Issue the ill-formed request.  It is expected to raise."""
    k = f[0]
    if k == "add_bond":
        g.add_bond(_fresh(f[1]), _fresh(f[2]))
    elif k == "add_role_bond":
        {"formed": g.add_formed_bond, "broken": g.add_broken_bond,
         "fleeting": g.add_fleeting_bond}[f[3]](_fresh(f[1]), _fresh(f[2]))
    elif k == "add_atom_attrs":
        g.add_atom(f[1], f[2], **f[3])
    elif k == "remove_atom":
        g.remove_atom(f[1])
    elif k == "remove_bond":
        g.remove_bond(f[1], f[2])
    elif k == "set_atom_attr":
        g.set_atom_attribute(f[1], f[2], f[3])
    elif k == "del_atom_attr":
        g.delete_atom_attribute(f[1], f[2])
    elif k == "set_bond_attr":
        g.set_bond_attribute(f[1], f[2], f[3], _label(f[4]))
    elif k == "del_bond_attr":
        g.delete_bond_attribute(f[1], f[2], f[3])
    elif k == "set_atom_stereo":
        g.set_atom_stereo(rc.mk_desc(f[1]))
    elif k == "set_bond_stereo":
        g.set_bond_stereo(rc.mk_desc(f[1]))
    elif k == "set_atom_change":
        g.set_atom_stereo_change(**{r: (None if d is None else rc.mk_desc(d))
                                    for r, d in f[1].items()})
    elif k == "set_bond_change":
        g.set_bond_stereo_change(**{r: (None if d is None else rc.mk_desc(d))
                                    for r, d in f[1].items()})
    elif k == "add_atom":
        g.add_atom(f[1], f[2])
    elif k == "add_bond_role_type":
        g.add_bond(f[1], f[2], reaction=_label(f[3]))
    else:
        raise HarnessError(f"unknown fault {f}")


def fault_label(f):
    """kind of ill-formed request (part of the signature)"""
    return f[-1] if isinstance(f[-1], str) and f[-1].startswith("#") \
        else f[0]


def fault_in_domain(m: Model, f):
    """Is the request really ill-formed in state m (re-checked after
    shrinking)?  The last element of f is a '#tag' naming the kind."""
    tag = f[-1]
    A, B = m.atoms, m.bonds
    k = f[0]
    if tag == "#unknown-atom":
        if k in ("add_bond", "add_role_bond", "remove_bond"):
            return f[1] not in A or f[2] not in A
        return f[1] not in A
    if tag == "#unknown-bond":
        return f[1] in A and f[2] in A and f[1] != f[2] and \
            fs(f[1], f[2]) not in B
    if tag == "#self-bond":
        return f[1] == f[2] and f[1] in A
    if tag == "#stereo-unknown-centre":
        d = desc(f[1])
        if d[0] in sym.ATOM_CLASSES:
            return d[1][0] not in A
        return fs(d[1][2], d[1][3]) not in B
    if tag == "#change-unknown-centre":
        ds = [desc(d) for d in f[1].values() if d is not None]
        if not ds:
            return False
        d = ds[0]
        if d[0] in sym.ATOM_CLASSES:
            return all(x[1][0] == d[1][0] for x in ds) and d[1][0] not in A
        return all(desc_bond(x) == desc_bond(d) for x in ds) and \
            desc_bond(d) not in B
    if tag == "#change-empty":
        return all(d is None for d in f[1].values())
    if tag == "#change-two-centres":
        ds = [desc(d) for d in f[1].values() if d is not None]
        if k == "set_atom_change":
            return len({d[1][0] for d in ds}) > 1
        return len({desc_bond(d) for d in ds}) > 1
    if tag == "#non-element":
        if k in ("add_atom", "add_atom_attrs"):
            return f[2] in BAD_ELEMENTS
        return f[1] in A and f[2] == "atom_type" and f[3] in BAD_ELEMENTS
    if tag == "#role-type":
        if not m.is_reaction:
            return False
        if k == "add_bond_role_type":
            return f[1] in A and f[2] in A and f[1] != f[2]
        return fs(f[1], f[2]) in B and f[3] == "reaction"
    if tag == "#delete-element":
        return f[1] in A and f[2] == "atom_type"
    return False


def _fault_desc_atom(tp, m, centre):
    others = tp.shuffle(list(m.atoms))[:4]
    lig = (others + [None] * 4)[:4]
    return ["Tetrahedral", [centre] + lig, tp.pick([1, -1])]


def _fault_desc_bond(tp, m, x, y):
    return ["PlanarBond", [None, None, x, y, None, None], 0]


def gen_fault(tp, m: Model, ids):
    """One ill-formed request for state m (or None)."""
    atoms = list(m.atoms)
    absent = [i for i in ids if i not in m.atoms] + [-777, 10**9]
    u = tp.pick(absent)
    a = tp.pick(atoms) if atoms else None
    nonbonds = [(x, y) for i, x in enumerate(atoms) for y in atoms[i + 1:]
                if fs(x, y) not in m.bonds]
    bonds = sorted(m.bonds, key=sorted)
    kinds = ["unknown-atom"] * 4 + ["non-element"] * 2
    if atoms:
        kinds += ["self-bond"] * 2 + ["delete-element"]
    if nonbonds:
        kinds += ["unknown-bond"] * 3
    if m.is_stereo:
        kinds += ["stereo-unknown-centre"] * 2
    if m.cls == "SCRG":
        kinds += ["change-unknown-centre", "change-empty"]
        if len(atoms) >= 2:
            kinds += ["change-two-centres"] * 2
    if m.is_reaction and (len(atoms) >= 2):
        kinds += ["role-type"] * 2
    kind = tp.pick(kinds)
    tag = "#" + kind
    if kind == "unknown-atom":
        other = a if (a is not None and tp.chance(190)) else tp.pick(absent)
        c = tp.below(7 if m.is_reaction else 6)
        if c == 0:
            pair = tp.shuffle([u, other])
            return ["add_bond", pair[0], pair[1], tag]
        if c == 1:
            return ["remove_atom", u, tag]
        if c == 2:
            return ["set_atom_attr", u, tp.pick(ATTR_NAMES), 1, tag]
        if c == 3:
            return ["del_atom_attr", u, tp.pick(ATTR_NAMES), tag]
        if c == 4:
            pair = tp.shuffle([u, other])
            return ["remove_bond", pair[0], pair[1], tag]
        if c == 5:
            return ["set_atom_attr", u, "atom_type", 6, tag]
        pair = tp.shuffle([u, other])
        return ["add_role_bond", pair[0], pair[1], tp.pick(ROLES), tag]
    if kind == "unknown-bond":
        x, y = tp.pick(nonbonds)
        c = tp.below(3)
        if c == 0:
            return ["remove_bond", x, y, tag]
        if c == 1:
            return ["set_bond_attr", x, y, tp.pick(ATTR_NAMES), 1, tag]
        return ["del_bond_attr", x, y, tp.pick(ATTR_NAMES), tag]
    if kind == "self-bond":
        if m.is_reaction and tp.chance(100):
            return ["add_role_bond", a, a, tp.pick(ROLES), tag]
        return ["add_bond", a, a, tag]
    if kind == "stereo-unknown-centre":
        if tp.chance(128) or not nonbonds:
            return ["set_atom_stereo", _fault_desc_atom(tp, m, u), tag]
        x, y = tp.pick(nonbonds)
        return ["set_bond_stereo", _fault_desc_bond(tp, m, x, y), tag]
    if kind == "change-unknown-centre":
        role = tp.pick(ROLES)
        if tp.chance(128) or not nonbonds:
            return ["set_atom_change", {role: _fault_desc_atom(tp, m, u)},
                    tag]
        x, y = tp.pick(nonbonds)
        return ["set_bond_change", {role: _fault_desc_bond(tp, m, x, y)},
                tag]
    if kind == "change-empty":
        which = tp.pick(["set_atom_change", "set_bond_change"])
        return [which, {r: None for r in ROLES if tp.chance(128)}, tag]
    if kind == "change-two-centres":
        if tp.chance(40) and len(atoms) >= 2:
            # one role centred on a real atom, another one on the lone-pair
            # placeholder (None is no atom)
            x = tp.pick(atoms)
            ligs = ([q for q in tp.shuffle(atoms) if q != x]
                    + [None] * 4)[:4]
            r1, r2 = tp.shuffle(list(ROLES))[:2]
            return ["set_atom_change",
                    {r1: ["Tetrahedral", [x] + ligs, 1],
                     r2: ["Tetrahedral", [None] + ligs, -1]}, tag]
        if tp.chance(70):
            # two descriptors over the SAME atoms (unspecified parity makes
            # them compare equal) centred on different atoms / bonds
            par = tp.pick([None, None, 1])
            r1, r2 = tp.shuffle(list(ROLES))[:2]
            if bonds and len(atoms) >= 3 and tp.chance(128):
                x, y = tp.shuffle(sorted(tp.pick(bonds)))
                z = tp.pick([q for q in atoms if q not in (x, y)])
                par = None if par is None else 0
                return ["set_bond_change",
                        {r1: ["PlanarBond", [z, None, x, y, None, None], par],
                         r2: ["PlanarBond", [x, None, z, y, None, None], par]},
                        tag]
            x, y = tp.shuffle(atoms)[:2]
            ligs = ([q for q in tp.shuffle(atoms) if q not in (x, y)]
                    + [None] * 3)[:3]
            return ["set_atom_change",
                    {r1: ["Tetrahedral", [x, y] + ligs, par],
                     r2: ["Tetrahedral", [y, x] + ligs, par]}, tag]
        if len(bonds) >= 2 and tp.chance(128):
            b1, b2 = tp.shuffle(bonds)[:2]
            if tp.chance(128):
                odd = tp.pick(ROLES)
                return ["set_bond_change",
                        {r: _fault_desc_bond(
                            tp, m, *sorted(b2 if r == odd else b1))
                         for r in ROLES}, tag]
            r1, r2 = tp.shuffle(list(ROLES))[:2]
            return ["set_bond_change",
                    {r1: _fault_desc_bond(tp, m, *sorted(b1)),
                     r2: _fault_desc_bond(tp, m, *sorted(b2))}, tag]
        x, y = tp.shuffle(atoms)[:2]
        if tp.chance(128):
            # all three roles, one of them on the other centre
            odd = tp.pick(ROLES)
            return ["set_atom_change",
                    {r: _fault_desc_atom(tp, m, y if r == odd else x)
                     for r in ROLES}, tag]
        r1, r2 = tp.shuffle(list(ROLES))[:2]
        return ["set_atom_change", {r1: _fault_desc_atom(tp, m, x),
                                    r2: _fault_desc_atom(tp, m, y)}, tag]
    if kind == "non-element":
        if a is not None and tp.chance(70):
            # re-adding an existing atom with a bad type and more attributes
            return ["add_atom_attrs", a, tp.pick(BAD_ELEMENTS),
                    {tp.pick(ATTR_NAMES): tp.pick(ATTR_VALUES)}, tag]
        if tp.chance(40):
            return ["add_atom_attrs", u, tp.pick(BAD_ELEMENTS),
                    {tp.pick(ATTR_NAMES): tp.pick(ATTR_VALUES)}, tag]
        if a is not None and tp.chance(128):
            return ["set_atom_attr", a, "atom_type", tp.pick(BAD_ELEMENTS),
                    tag]
        return ["add_atom", u, tp.pick(BAD_ELEMENTS), tag]
    if kind == "role-type":
        if bonds and tp.chance(128):
            x, y = sorted(tp.pick(bonds))
            return ["set_bond_attr", x, y, "reaction",
                    tp.pick(["formed", 1, "BROKEN", "ENUM:FORMED",
                             "INTENUM:1"]), tag]
        x, y = tp.shuffle(atoms)[:2]
        return ["add_bond_role_type", x, y,
                tp.pick(["formed", 1, "BROKEN", "ENUM:FORMED", "INTENUM:1"]),
                tag]
    if kind == "delete-element":
        return ["del_atom_attr", a, "atom_type", tag]
    return None


def enumerate_faults(m: Model):
    """a fixed catalogue of ill-formed requests for a (small) state"""
    A = list(m.atoms)
    out = []
    a = A[0] if A else None
    for u in (3, -777):
        if u in m.atoms:
            continue
        out.append(["remove_atom", u, "#unknown-atom"])
        out.append(["set_atom_attr", u, "k", 1, "#unknown-atom"])
        out.append(["set_atom_attr", u, "atom_type", 6, "#unknown-atom"])
        out.append(["del_atom_attr", u, "k", "#unknown-atom"])
        out.append(["add_bond", u, -5, "#unknown-atom"])
        if a is not None:
            out.append(["add_bond", a, u, "#unknown-atom"])
            out.append(["add_bond", u, a, "#unknown-atom"])
            out.append(["remove_bond", a, u, "#unknown-atom"])
            if m.is_reaction:
                for r in ROLES:
                    out.append(["add_role_bond", a, u, r, "#unknown-atom"])
                    out.append(["add_role_bond", u, a, r, "#unknown-atom"])
        if m.is_stereo:
            out.append(["set_atom_stereo",
                        ["Tetrahedral", [u, a, None, None, None], 1],
                        "#stereo-unknown-centre"])
        if m.cls == "SCRG":
            out.append(["set_atom_change",
                        {"formed": ["Tetrahedral", [u, a, None, None, None],
                                    1]}, "#change-unknown-centre"])
    out.append(["add_atom", 9, "Xx", "#non-element"])
    out.append(["add_atom", 9, 0, "#non-element"])
    for x in A:
        out.append(["add_bond", x, x, "#self-bond"])
        if m.is_reaction:
            out.append(["add_role_bond", x, x, "formed", "#self-bond"])
        out.append(["set_atom_attr", x, "atom_type", "Xx", "#non-element"])
        out.append(["add_atom_attrs", x, "Xx", {"k": 7}, "#non-element"])
        out.append(["del_atom_attr", x, "atom_type", "#delete-element"])
    for i, x in enumerate(A):
        for y in A[i + 1:]:
            if fs(x, y) not in m.bonds:
                out.append(["remove_bond", x, y, "#unknown-bond"])
                out.append(["set_bond_attr", x, y, "k", 1, "#unknown-bond"])
                out.append(["del_bond_attr", x, y, "k", "#unknown-bond"])
                if m.is_stereo:
                    out.append(["set_bond_stereo", ["PlanarBond", [
                        None, None, x, y, None, None], 0],
                        "#stereo-unknown-centre"])
                if m.cls == "SCRG":
                    out.append(["set_bond_change", {"broken": ["PlanarBond", [
                        None, None, x, y, None, None], 0]},
                        "#change-unknown-centre"])
                if m.is_reaction:
                    out.append(["add_bond_role_type", x, y, "formed",
                                "#role-type"])
            elif m.is_reaction:
                out.append(["set_bond_attr", x, y, "reaction", "formed",
                            "#role-type"])
                out.append(["set_bond_attr", x, y, "reaction", "ENUM:FORMED",
                            "#role-type"])
            if m.cls == "SCRG":
                out.append(["set_atom_change", {
                    "broken": ["Tetrahedral", [x, y, None, None, None], 1],
                    "formed": ["Tetrahedral", [None, y, x, None, None], -1]},
                    "#change-two-centres"])
                for par in (1, None):
                    out.append(["set_atom_change", {
                        "broken": ["Tetrahedral", [x, y, None, None, None],
                                   par],
                        "formed": ["Tetrahedral", [y, x, None, None, None],
                                   par]},
                        "#change-two-centres"])
                for odd in ROLES:
                    out.append(["set_atom_change", {
                        r: ["Tetrahedral", [y if r == odd else x,
                                            x if r == odd else y,
                                            None, None, None], 1]
                        for r in ROLES}, "#change-two-centres"])
    if m.cls == "SCRG":
        out.append(["set_atom_change", {}, "#change-empty"])
        out.append(["set_bond_change", {"formed": None}, "#change-empty"])
        bl = sorted(m.bonds, key=sorted)
        for b in bl:
            x, y = sorted(b)
            for z in m.atoms:
                if z not in b:
                    out.append(["set_bond_change", {
                        "broken": ["PlanarBond", [z, None, x, y, None, None],
                                   None],
                        "formed": ["PlanarBond", [x, None, z, y, None, None],
                                   None]}, "#change-two-centres"])
                    break
        if len(bl) >= 2:
            out.append(["set_bond_change", {
                "broken": ["PlanarBond", [None, None, *sorted(bl[0]), None,
                                          None], 0],
                "fleeting": ["PlanarBond", [None, None, *sorted(bl[1]), None,
                                            None], 0]},
                "#change-two-centres"])
            for odd in ROLES:
                out.append(["set_bond_change", {
                    r: ["PlanarBond", [None, None, *sorted(
                        bl[1] if r == odd else bl[0]), None, None], 0]
                    for r in ROLES}, "#change-two-centres"])
    return out
