"""Shared harness: tiers, seeds, sharding, evidence, violations, known findings.

Exit codes: 0 held on everything explored (known findings printed as
KNOWN-FINDING lines), 1 VIOLATION, 2 harness error.
"""
from __future__ import annotations

import hashlib
import json
import os
import re
import sys
import time
import traceback
from collections import Counter

VERIF = os.path.dirname(os.path.dirname(os.path.abspath(__file__)))
REPO_SRC = os.environ.get("VP_REPO_SRC", "/repo/src")
EVIDENCE_DIR = os.environ.get("VP_EVIDENCE_DIR") or os.path.join(VERIF, "evidence")
VIOL_DIR = os.path.join(EVIDENCE_DIR, "violations")
REPLAY_DIR = os.path.join(VERIF, "replays")
KNOWN_FILE = os.path.join(VERIF, "known_findings.json")


class Violation(Exception):
    """The property failed on a case.  ``sig`` names call site + failure
    kind + distinguishing feature of the input."""

    def __init__(self, sig: str, msg: str = "", case=None):
        super().__init__(f"{sig}: {msg}")
        self.sig = sig
        self.msg = msg
        self.case = case


class CaseTimeout(BaseException):
    """one case ran longer than the per-case limit (not an Exception, so
    that neither the checks nor ``guard`` swallow it)"""


def _on_alarm(signum, frame):
    raise CaseTimeout()


class time_limit:
    """per-case watchdog (SIGALRM, main thread of a worker process).  A case
    that exceeds it is counted as 'no verdict' and the run goes on: on a
    broken tree a comparison may loop for ever, and the other cases still
    have to be looked at."""

    def __init__(self, seconds):
        self.seconds = int(seconds)
        self.old = None

    def __enter__(self):
        import signal
        import threading
        if self.seconds > 0 and \
                threading.current_thread() is threading.main_thread():
            self.old = signal.signal(signal.SIGALRM, _on_alarm)
            signal.alarm(self.seconds)
        return self

    def __exit__(self, et, ev, tb):
        import signal
        if self.old is not None:
            signal.alarm(0)
            signal.signal(signal.SIGALRM, self.old)
        return False


def case_limit(tier):
    return int(os.environ.get("VP_CASE_SECONDS")
               or (90 if tier == "quick" else 240))


class HarnessError(Exception):
    pass


def canonical_json(obj) -> str:
    return json.dumps(obj, sort_keys=True, separators=(",", ":"),
                      default=_json_default)


def _json_default(o):
    if isinstance(o, (set, frozenset)):
        return sorted(o, key=repr)
    if isinstance(o, tuple):
        return list(o)
    try:
        import numpy as np
        if isinstance(o, np.integer):
            return int(o)
        if isinstance(o, np.floating):
            return float(o)
        if isinstance(o, np.ndarray):
            return o.tolist()
    except Exception:  # pragma: no cover
        pass
    return repr(o)


def case_hash(case) -> str:
    return hashlib.sha1(canonical_json(case).encode()).hexdigest()[:16]


def repo_frame(exc: BaseException) -> str:
    """Innermost frame inside the package under test -> 'file:function'."""
    tb = traceback.extract_tb(exc.__traceback__)
    for fr in reversed(tb):
        if "stereomolgraph" in fr.filename and "/verif/" not in fr.filename:
            return f"{os.path.basename(fr.filename)}:{fr.name}"
    return "?"


def origin_is_repo(exc: BaseException) -> bool:
    """Was the exception raised while code of the package under test was
    executing (rather than inside the harness)?  Decided by the innermost
    frame that belongs to either of the two."""
    tb = traceback.extract_tb(exc.__traceback__)
    for fr in reversed(tb):
        if "/verif/" in fr.filename:
            return False
        if "stereomolgraph" in fr.filename:
            return True
    return False


def as_violation(pid: str, exc: BaseException):
    """An exception that escaped from the package under test outside an
    explicit guard is a failure of the property on that case, not a harness
    error."""
    return Violation(
        f"{pid}/unguarded/raises-{type(exc).__name__}@{repo_frame(exc)}",
        f"{type(exc).__name__}: {exc}")


class guard:
    """Context manager around calls into the code under test: an exception
    there is a failure of the property (sig = prefix + exception kind +
    innermost repo frame), never a harness error."""

    def __init__(self, prefix: str, allow: tuple = ()):
        self.prefix = prefix
        self.allow = allow

    def __enter__(self):
        return self

    def __exit__(self, et, ev, tb):
        if ev is None:
            return False
        if isinstance(ev, (Violation, HarnessError, KeyboardInterrupt,
                           SystemExit, MemoryError)):
            return False
        if not isinstance(ev, Exception):
            return False
        if self.allow and isinstance(ev, self.allow):
            return False
        raise Violation(f"{self.prefix}/raises-{et.__name__}@{repo_frame(ev)}",
                        f"{et.__name__}: {ev}") from ev


# --------------------------------------------------------------------------
# known findings


def load_known(pid: str):
    if not os.path.exists(KNOWN_FILE):
        return []
    with open(KNOWN_FILE) as fh:
        data = json.load(fh)
    out = []
    for e in data.get("findings", []):
        if e.get("property") == pid and e.get("status") == "open":
            out.append(e)
    return out


def match_known(known, sig: str):
    for e in known:
        if re.fullmatch(e["signature"], sig):
            return e
    return None



# --------------------------------------------------------------------------
# recipe-level delta debugging (after / instead of Hypothesis' tape shrinking)

SHRINK_KEYS = {"atoms", "bonds", "atom_stereo", "bond_stereo", "atom_changes",
               "bond_changes", "mapping", "ops", "subset", "pieces", "followup",
               "labels", "faults", "coords", "elements", "history"}


def _list_paths(obj, path=()):
    if isinstance(obj, dict):
        for k, v in obj.items():
            if isinstance(v, list) and k in SHRINK_KEYS:
                yield path + (k,)
            yield from _list_paths(v, path + (k,))
    elif isinstance(obj, list):
        for i, v in enumerate(obj):
            if isinstance(v, (dict, list)):
                yield from _list_paths(v, path + (i,))


def _get(obj, path):
    for k in path:
        obj = obj[k]
    return obj


def _generic_candidates(case):
    import copy
    for path in sorted(set(_list_paths(case)), key=lambda p: -len(p)):
        lst = _get(case, path)
        for i in range(len(lst) - 1, -1, -1):
            cand = copy.deepcopy(case)
            del _get(cand, path)[i]
            yield cand


def minimize(case, still_fails, candidates=None, max_checks=2500,
             max_seconds=90.0):
    """Greedy delta debugging: take the first candidate (a strictly smaller
    case) that still fails with the same signature, restart from it.  Bounded
    by a number of checks and by wall-clock time (a budget hit only means a
    less minimal replay)."""
    if candidates is None:
        candidates = _generic_candidates
    budget = max_checks
    deadline = time.time() + max_seconds
    progress = True
    while progress and budget > 0 and time.time() < deadline:
        progress = False
        try:
            cands = candidates(case)
            for cand in cands:
                if budget <= 0 or time.time() > deadline:
                    break
                budget -= 1
                try:
                    ok = bool(still_fails(cand))
                except Exception:
                    ok = False
                if ok:
                    case = cand
                    progress = True
                    break
        except HarnessError:
            break
    return case


class Ctx:
    """Per-(shard) run context handed to a property module."""

    def __init__(self, pid, tier, seed, shard=0, nshards=1, replay=False):
        self.pid = pid
        self.tier = tier
        self.seed = seed
        self.shard = shard
        self.nshards = nshards
        self.replay = replay
        self.known = load_known(pid)
        self.evaluations = 0
        self.classes = Counter()
        self.excluded = Counter()
        self.nontrivial = set()
        self.nontrivial_enum = 0         # distinct by construction (enumerations)
        self.samples = []
        self.sample_slots = 6
        self.known_hits = Counter()      # finding id -> hits
        self.known_example = {}
        self.violations = []             # dicts: sig,msg,case
        self.muted = set()
        self.extra = {}                  # free-form coverage keys
        self.exhaustive = None
        self._target_sig = None
        self._last_failure = None

    # ---- bookkeeping -----------------------------------------------------
    @property
    def quick(self):
        return self.tier == "quick"

    def scale(self, quick: int, thorough: int) -> int:
        """Per-shard case budget."""
        total = quick if self.tier == "quick" else thorough
        return max(1, total // self.nshards)

    def note(self, case, nontrivial: bool, labels=()):
        self.evaluations += 1
        for lab in labels:
            self.classes[lab] += 1
        if nontrivial:
            h = case_hash(case)
            if h not in self.nontrivial:
                self.nontrivial.add(h)
                if len(self.samples) < self.sample_slots:
                    self.samples.append(case)
        elif not self.samples:
            self.samples.append(case)

    def count(self, n=1, labels=(), nontrivial=0, sample=None):
        """Cheap counting for enumerations without repetition (each case is
        distinct by construction, so it is counted instead of hashed)."""
        self.evaluations += n
        self.nontrivial_enum += nontrivial
        for lab in labels:
            self.classes[lab] += n
        if sample is not None and len(self.samples) < self.sample_slots:
            self.samples.append(sample)

    def exclude(self, reason: str):
        self.excluded[reason] += 1

    # ---- violation handling ---------------------------------------------
    def handle(self, v: Violation, case):
        """Return True if the violation is to be raised to the driver."""
        if v.case is not None:
            case = v.case
        k = match_known(self.known, v.sig)
        if k is not None:
            self.known_hits[k["id"]] += 1
            self.known_example.setdefault(k["id"], v.sig)
            return False
        if v.sig in self.muted:
            return False
        if self._target_sig is None:
            self._target_sig = v.sig
        if v.sig != self._target_sig:
            return False
        self._last_failure = (v.sig, v.msg, case)
        return True

    def record_violation(self, sig, msg, case):
        self.muted.add(sig)
        self.violations.append({"sig": sig, "msg": msg, "case": case})

    def fail_exc(self, e: BaseException, case):
        """enumeration loops: an exception that escaped from the package
        under test is a violation on that case; anything else propagates"""
        if isinstance(e, Violation):
            return self.fail_now(e, case)
        if isinstance(e, (HarnessError, KeyboardInterrupt, MemoryError)) \
                or not origin_is_repo(e):
            raise e
        return self.fail_now(as_violation(self.pid, e), case)

    def fail_now(self, v: Violation, case):
        """For enumerations (no shrinking): record unless known / muted."""
        if v.case is not None:
            case = v.case
        k = match_known(self.known, v.sig)
        if k is not None:
            self.known_hits[k["id"]] += 1
            self.known_example.setdefault(k["id"], v.sig)
            return
        if v.sig in self.muted:
            return
        self.record_violation(v.sig, v.msg, case)

    # ---- hypothesis driver ------------------------------------------------
    def hyp(self, name, strategy, check, n_examples, max_rounds=25,
            shrink=False, ddmin=True, shrinker=None):
        """Run ``check(case)`` over ``strategy``.  Known findings are counted
        and skipped, every new signature is shrunk separately and muted."""
        import hypothesis
        from hypothesis import HealthCheck, Phase, given, settings

        phases = [Phase.generate] + ([Phase.shrink] if shrink else [])
        remaining = n_examples
        rounds = 0
        sub_seed = (self.seed * 1000003 + self.shard * 7919
                    + int(hashlib.sha1(name.encode()).hexdigest()[:6], 16))
        t_start = time.time()
        wall_budget = 150 if self.tier == "quick" else 1500
        while remaining > 0 and rounds < max_rounds:
            if rounds and time.time() - t_start > wall_budget:
                self.extra["time_budget_hit"] = 1   # explored less, no verdict
                break
            rounds += 1
            self._target_sig = None
            self._last_failure = None
            executed = [0]
            ctx = self

            @hypothesis.seed(sub_seed + rounds - 1)
            @settings(max_examples=remaining, database=None, deadline=None,
                      derandomize=False, report_multiple_bugs=False,
                      phases=phases, print_blob=False,
                      suppress_health_check=[HealthCheck.too_slow,
                                             HealthCheck.data_too_large])
            @given(strategy)
            def test(case):
                executed[0] += 1
                try:
                    with time_limit(case_limit(ctx.tier)):
                        check(case)
                except CaseTimeout:
                    ctx.exclude("case-exceeded-the-time-limit")
                    ctx.extra["case_timeouts"] = ctx.extra.get(
                        "case_timeouts", 0) + 1
                except Violation as v:
                    if ctx.handle(v, case):
                        raise
                except (HarnessError, KeyboardInterrupt, MemoryError):
                    raise
                except Exception as e:
                    if not origin_is_repo(e):
                        raise
                    v = as_violation(ctx.pid, e)
                    if ctx.handle(v, case):
                        raise v from e

            try:
                test()
                remaining = 0
            except Violation:
                sig, msg, case = self._last_failure
                if ddmin:
                    case, msg = self._ddmin(check, sig, msg, case, shrinker)
                self.record_violation(sig, msg, case)
                remaining -= executed[0]
            except hypothesis.errors.FailedHealthCheck as e:
                raise HarnessError(f"{name}: generator health check: {e}")
            except hypothesis.errors.Unsatisfiable as e:
                raise HarnessError(f"{name}: unsatisfiable: {e}")
        self._target_sig = None

    def _ddmin(self, check, sig, msg, case, shrinker=None):
        last = [msg]
        saved = (self.evaluations, self.classes.copy(),
                 set(self.nontrivial), list(self.samples),
                 self.excluded.copy())

        def still_fails(c):
            try:
                with time_limit(case_limit(self.tier)):
                    check(c)
            except CaseTimeout:
                return False
            except Violation as v:
                if v.sig == sig:
                    last[0] = v.msg
                    return True
            except HarnessError:
                return False
            except Exception as e:
                if origin_is_repo(e) and as_violation(self.pid, e).sig == sig:
                    last[0] = f"{type(e).__name__}: {e}"
                    return True
            return False

        try:
            case = minimize(case, still_fails, shrinker,
                            max_seconds=60.0 if self.tier == "quick"
                            else 300.0)
        finally:
            (self.evaluations, self.classes, self.nontrivial, self.samples,
             self.excluded) = saved
        return case, last[0]

    # ---- plain driver for replays / enumerations -----------------------
    def run_case(self, check, case):
        try:
            with time_limit(case_limit(self.tier)):
                check(case)
        except CaseTimeout:
            self.exclude("case-exceeded-the-time-limit")
            self.extra["case_timeouts"] = self.extra.get(
                "case_timeouts", 0) + 1
        except Violation as v:
            self.fail_now(v, case)
        except HarnessError:
            raise
        except Exception as e:
            if not origin_is_repo(e):
                raise
            self.fail_now(as_violation(self.pid, e), case)

    # ---- result ----------------------------------------------------------
    def result(self):
        return {
            "evaluations": self.evaluations,
            "classes": dict(self.classes),
            "excluded": dict(self.excluded),
            "nontrivial": sorted(self.nontrivial),
            "nontrivial_enum": self.nontrivial_enum,
            "samples": self.samples,
            "known_hits": dict(self.known_hits),
            "known_example": dict(self.known_example),
            "violations": self.violations,
            "extra": self.extra,
            "exhaustive": self.exhaustive,
        }


# --------------------------------------------------------------------------


def _worker(args):
    modname, pid, tier, seed, shard, nshards = args
    try:
        import importlib
        mod = importlib.import_module(modname)
        ctx = Ctx(pid, tier, seed, shard, nshards)
        _run_replays(mod, ctx, only_shard0=True)
        mod.run(ctx)
        return ("ok", ctx.result())
    except HarnessError as e:
        return ("harness", f"{e}")
    except Exception:
        return ("harness", traceback.format_exc())


def _run_replays(mod, ctx, only_shard0=False):
    if only_shard0 and ctx.shard != 0:
        return
    d = os.path.join(REPLAY_DIR, ctx.pid)
    if not os.path.isdir(d):
        return
    n = 0
    for fn in sorted(os.listdir(d)):
        if not fn.endswith(".json"):
            continue
        with open(os.path.join(d, fn)) as fh:
            case = json.load(fh)
        if isinstance(case, dict) and "case" in case and "sig" in case:
            case = case["case"]
        ctx.classes["replay-file"] += 1
        n += 1
        ctx.run_case(lambda c: mod.check_case(ctx, c), case)
    ctx.extra["replay_files"] = n


def merge(results):
    out = {
        "evaluations": 0, "classes": Counter(), "excluded": Counter(),
        "nontrivial": set(), "nontrivial_enum": 0, "samples": [],
        "known_hits": Counter(),
        "known_example": {}, "violations": [], "extra": {},
        "exhaustive": None,
    }
    seen_sig = set()
    for r in results:
        out["evaluations"] += r["evaluations"]
        out["classes"].update(r["classes"])
        out["excluded"].update(r["excluded"])
        out["nontrivial"].update(r["nontrivial"])
        out["nontrivial_enum"] += r["nontrivial_enum"]
        for s in r["samples"]:
            if len(out["samples"]) < 8:
                out["samples"].append(s)
        out["known_hits"].update(r["known_hits"])
        for k, v in r["known_example"].items():
            out["known_example"].setdefault(k, v)
        for v in r["violations"]:
            if v["sig"] not in seen_sig:
                seen_sig.add(v["sig"])
                out["violations"].append(v)
        for k, v in r["extra"].items():
            if isinstance(v, (int, float)) and not isinstance(v, bool):
                out["extra"][k] = out["extra"].get(k, 0) + v
            elif isinstance(v, dict):
                d = out["extra"].setdefault(k, {})
                for kk, vv in v.items():
                    if isinstance(vv, (int, float)):
                        d[kk] = d.get(kk, 0) + vv
                    else:
                        d.setdefault(kk, vv)
            else:
                out["extra"].setdefault(k, v)
        if r["exhaustive"] is not None:
            out["exhaustive"] = (r["exhaustive"] if out["exhaustive"] is None
                                 else (out["exhaustive"] and r["exhaustive"]))
    return out


def safe_name(sig: str) -> str:
    return re.sub(r"[^A-Za-z0-9_.-]+", "_", sig)[:120]


def write_evidence(mod, pid, tier, seed, merged, wall, nshards):
    os.makedirs(EVIDENCE_DIR, exist_ok=True)
    cov = {
        "evaluations": merged["evaluations"],
        "distinct_nontrivial": (len(merged["nontrivial"])
                                + merged["nontrivial_enum"]),
        "rule": mod.RULE,
        "samples": merged["samples"][:8],
        "classes": dict(sorted(merged["classes"].items())),
        "excluded": dict(merged["excluded"]),
        "known_finding_hits": dict(merged["known_hits"]),
        "shards": nshards,
        "trusted_base": list(getattr(mod, "TRUSTED", [])),
    }
    for k, v in merged["extra"].items():
        cov.setdefault(k, v)
    if cov.get("atheris_executions"):
        cov["rule"] += (
            " Second engine (thorough tier): atheris / libFuzzer campaigns, "
            "one per shard, feed their bytes as tapes into the same "
            "generators and the same checks with only the package under "
            "test instrumented for coverage; their cases are counted under "
            "classes 'engine:atheris:*' and in 'atheris_executions'.")
    if merged["exhaustive"] is not None:
        cov["exhaustive"] = bool(merged["exhaustive"])
    ev = {
        "property_id": pid,
        "tier": tier,
        "seed": seed,
        "level": mod.LEVEL,
        "coverage": cov,
        "assumptions": list(getattr(mod, "ASSUMPTIONS", [])),
        "wall_s": round(wall, 2),
        "violations": len(merged["violations"]),
    }
    path = os.path.join(EVIDENCE_DIR, f"{pid}.json")
    tmp = path + ".tmp"
    with open(tmp, "w") as fh:
        json.dump(ev, fh, indent=1, default=_json_default)
        fh.write("\n")
    os.replace(tmp, path)
    return path


def report(pid, merged):
    """Print KNOWN-FINDING / VIOLATION lines; return exit code."""
    known_all = load_known(pid)
    for e in known_all:
        hits = merged["known_hits"].get(e["id"], 0)
        # listed findings are always announced on the tree that still has
        # them; the hit count says whether this run reproduced it
        print(f"KNOWN-FINDING: property={pid} {e['id']}: {e['description']}"
              f" [reproduced {hits}x in this run]")
    code = 0
    if merged["violations"]:
        os.makedirs(VIOL_DIR, exist_ok=True)
        for v in merged["violations"]:
            path = os.path.join(VIOL_DIR, f"{pid}-{safe_name(v['sig'])}.json")
            with open(path, "w") as fh:
                json.dump({"property": pid, "sig": v["sig"], "msg": v["msg"],
                           "case": v["case"]}, fh, indent=1,
                          default=_json_default)
                fh.write("\n")
            print(f"VIOLATION property={pid} replay={path}")
            print(f"  signature: {v['sig']}")
            print(f"  detail: {v['msg'][:500]}")
            code = 1
    return code


def fuzz_stage(mod, pid, seed, nshards):
    """atheris campaigns over the module's own generators and checks (see
    vp/fuzzchild.py); returns result dicts to merge, or an error string"""
    import shutil
    import subprocess
    try:
        import atheris  # noqa: F401
    except Exception as e:
        return [{**Ctx(pid, "thorough", seed).result(),
                 "extra": {"atheris_stage": f"skipped: {e!r}"}}]
    total = int(os.environ.get("VP_FUZZ_RUNS") or mod.FUZZ_RUNS)
    runs = max(200, total // nshards)
    d = os.path.join(VERIF, "scratch", f"fuzz-{pid}-{os.getpid()}")
    os.makedirs(d, exist_ok=True)
    procs = []
    try:
        for k in range(nshards):
            out = os.path.join(d, f"{k}.json")
            procs.append((out, subprocess.Popen(
                [sys.executable, "-m", "vp.fuzzchild", pid, str(seed), str(k),
                 str(nshards), str(runs), out], cwd=VERIF,
                stdout=subprocess.DEVNULL, stderr=subprocess.PIPE)))
        results, fails = [], []
        # children stop themselves after VP_FUZZ_SECONDS (libFuzzer's
        # -max_total_time); the parent waits a little longer than that
        deadline = time.time() + int(os.environ.get(
            "VP_FUZZ_SECONDS", "300")) + 180
        for out, pr in procs:
            try:
                _, err = pr.communicate(timeout=max(5, deadline - time.time()))
            except subprocess.TimeoutExpired:
                pr.kill()
                _, err = pr.communicate()
            if not os.path.exists(out):
                fails.append((err or b"").decode(errors="replace")[-1500:])
                continue
            with open(out) as fh:
                r = json.load(fh)
            if r.get("harness_errors"):
                fails.append(r["harness_errors"][0])
                continue
            r["extra"]["atheris_children"] = 1
            if not r.get("final"):
                r["extra"]["atheris_children_cut_short"] = 1
            results.append(r)
        if fails:
            return "atheris stage: " + fails[0]
        # minimise what the campaigns recorded, with the module's own
        # check_case / shrink, in this process
        ctx = Ctx(pid, "thorough", seed)
        done = {}
        for r in results:
            for v in r["violations"]:
                if v["sig"] in done:
                    continue
                try:
                    case, msg = ctx._ddmin(
                        lambda c: mod.check_case(ctx, c), v["sig"], v["msg"],
                        v["case"], getattr(mod, "shrink", None))
                except Exception:
                    case, msg = v["case"], v["msg"]
                done[v["sig"]] = {"sig": v["sig"], "msg": msg, "case": case}
            r["violations"] = [done[v["sig"]] for v in r["violations"]]
        return results
    finally:
        for _, pr in procs:
            if pr.poll() is None:
                pr.kill()
        shutil.rmtree(d, ignore_errors=True)


def main_run(pid, tier, seed, nshards=None):
    import importlib
    modname = f"vp.props.{pid.lower()}"
    mod = importlib.import_module(modname)
    if nshards is None:
        nshards = (getattr(mod, "QUICK_SHARDS", 4) if tier == "quick"
                   else getattr(mod, "THOROUGH_SHARDS", 16))
    env_sh = os.environ.get("VP_SHARDS")
    if env_sh:
        nshards = int(env_sh)
    t0 = time.time()
    args = [(modname, pid, tier, seed, k, nshards) for k in range(nshards)]
    if nshards == 1:
        outs = [_worker(args[0])]
    else:
        import multiprocessing as mp
        mpctx = mp.get_context("fork")
        with mpctx.Pool(nshards) as pool:
            outs = pool.map(_worker, args, chunksize=1)
    errs = [o[1] for o in outs if o[0] != "ok"]
    if errs:
        print(f"HARNESS-ERROR property={pid}\n{errs[0]}", file=sys.stderr)
        return 2
    results = [o[1] for o in outs]
    if tier == "thorough" and getattr(mod, "FUZZ_RUNS", 0) \
            and os.environ.get("VP_FUZZ", "1") != "0":
        fz = fuzz_stage(mod, pid, seed, nshards)
        if isinstance(fz, str):
            print(f"HARNESS-ERROR property={pid}\n{fz}", file=sys.stderr)
            return 2
        results += fz
    merged = merge(results)
    wall = time.time() - t0
    # vacuity guard: a run that explored nothing non-trivial is a harness
    # problem, never a pass
    min_nt = getattr(mod, "MIN_NONTRIVIAL", 2)
    write_evidence(mod, pid, tier, seed, merged, wall, nshards)
    code = report(pid, merged)
    n_nt = len(merged["nontrivial"]) + merged["nontrivial_enum"]
    if code == 0 and n_nt < min_nt:
        print(f"HARNESS-ERROR property={pid}: only "
              f"{n_nt} distinct non-trivial cases",
              file=sys.stderr)
        return 2
    print(f"{pid} {tier} seed={seed}: evaluations={merged['evaluations']} "
          f"distinct_nontrivial={n_nt} "
          f"violations={len(merged['violations'])} "
          f"known_hits={sum(merged['known_hits'].values())} "
          f"wall={wall:.1f}s")
    return code


def main_replay(pid, path):
    import importlib
    mod = importlib.import_module(f"vp.props.{pid.lower()}")
    with open(path) as fh:
        case = json.load(fh)
    if isinstance(case, dict) and "case" in case and "sig" in case:
        case = case["case"]
    ctx = Ctx(pid, "quick", 0, replay=True)
    try:
        try:
            mod.check_case(ctx, case)
        except (Violation, HarnessError):
            raise
        except Exception as e:
            if not origin_is_repo(e):
                raise
            raise as_violation(pid, e) from e
    except Violation as v:
        k = match_known(ctx.known, v.sig)
        if k is not None:
            print(f"KNOWN-FINDING: property={pid} {k['id']}: "
                  f"{k['description']}")
            return 0
        print(f"VIOLATION property={pid} replay={os.path.abspath(path)}")
        print(f"  signature: {v.sig}")
        print(f"  detail: {v.msg[:2000]}")
        return 1
    print(f"{pid} replay {path}: property held")
    return 0
