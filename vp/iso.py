"""Brute-force isomorphism / automorphism enumeration on reference models.

Plain backtracking over bijections, atoms assigned in breadth-first order,
candidates restricted to equal label and equal degree, pruned by consistency
of already assigned adjacencies (and bond roles when asked).  Descriptors are tested on complete bijections with the
geometric canonical form.  Shares no idea with VF2++ (no frontier sets, no
matching order, no colour refinement).
"""
from __future__ import annotations

from vp import symmetry as sym


class BudgetExceeded(Exception):
    """the brute-force search was cut off: no verdict for this case"""


def _map_desc(d, f):
    return (d[0], tuple(None if a is None else f[a] for a in d[1]), d[2])


def descs_preserved(m1, m2, f, stereo=True, changes=True):
    """Does bijection f carry the descriptors of m1 onto those of m2?"""
    if stereo:
        if len(m1.atom_stereo) != len(m2.atom_stereo):
            return False
        if len(m1.bond_stereo) != len(m2.bond_stereo):
            return False
        for k, d in m1.atom_stereo.items():
            d2 = m2.atom_stereo.get(f[k])
            if d2 is None or not sym.same_or_unspecified(_map_desc(d, f), d2):
                return False
        for k, d in m1.bond_stereo.items():
            d2 = m2.bond_stereo.get(frozenset(f[a] for a in k))
            if d2 is None or not sym.same_or_unspecified(_map_desc(d, f), d2):
                return False
    if changes:
        for t1, t2, keyf in (
                (m1.atom_changes, m2.atom_changes, lambda k: f[k]),
                (m1.bond_changes, m2.bond_changes,
                 lambda k: frozenset(f[a] for a in k))):
            c1 = {k: ch for k, ch in t1.items() if ch}
            c2 = {k: ch for k, ch in t2.items() if ch}
            if len(c1) != len(c2):
                return False
            for k, ch in c1.items():
                ch2 = c2.get(keyf(k))
                if ch2 is None or set(ch) != set(ch2):
                    return False
                for r, d in ch.items():
                    if not sym.same_or_unspecified(_map_desc(d, f), ch2[r]):
                        return False
    return True


def mappings(m1, m2, labels=None, roles=True, stereo=True, changes=True,
             stats=None, budget=150000):
    """Yield every bijection atoms(m1) -> atoms(m2) that preserves the labels
    (default: element), adjacency, bond roles (if ``roles``), static
    descriptors (if ``stereo``) and stereo changes (if ``changes``)."""
    a1 = list(m1.atoms)
    a2 = list(m2.atoms)
    if len(a1) != len(a2) or len(m1.bonds) != len(m2.bonds):
        return
    if labels is None:
        l1 = {a: m1.atoms[a]["atom_type"] for a in a1}
        l2 = {a: m2.atoms[a]["atom_type"] for a in a2}
    else:
        l1, l2 = labels
    n = len(a1)
    f = {}
    used = set()
    b1, b2 = m1.bonds, m2.bonds
    adj1 = {a: set() for a in a1}
    for b in b1:
        x, y = tuple(b)
        adj1[x].add(y)
        adj1[y].add(x)
    deg2 = {a: 0 for a in a2}
    for b in b2:
        for x in b:
            deg2[x] += 1
    # assign atoms of m1 in breadth-first order (each atom next to an
    # already assigned one where possible) - only an ordering, no pruning
    order, seen = [], set()
    for s0 in a1:
        if s0 in seen:
            continue
        queue = [s0]
        seen.add(s0)
        while queue:
            x = queue.pop(0)
            order.append(x)
            for y in sorted(adj1[x], key=a1.index):
                if y not in seen:
                    seen.add(y)
                    queue.append(y)
    a1 = order
    earlier_nbrs = []
    for i, u in enumerate(a1):
        earlier_nbrs.append([(j, a1[j]) for j in range(i)])
    # candidates: same label and same degree (both isomorphism invariants)
    cands = {u: [v for v in a2 if l1[u] == l2[v]
                 and deg2[v] == len(adj1[u])] for u in a1}
    nodes = [0]

    def rec(i):
        nodes[0] += 1
        if nodes[0] > budget:
            raise BudgetExceeded()
        if i == n:
            if descs_preserved(m1, m2, f, stereo, changes):
                yield dict(f)
            elif stats is not None:
                stats["backtracks"] = stats.get("backtracks", 0) + 1
            return
        u = a1[i]
        for v in cands[u]:
            if v in used:
                continue
            ok = True
            for j, w in earlier_nbrs[i]:
                e1 = b1.get(frozenset((u, w)))
                e2 = b2.get(frozenset((v, f[w])))
                if (e1 is None) != (e2 is None):
                    ok = False
                    break
                if roles and e1 is not None and (
                        e1.get("reaction") != e2.get("reaction")):
                    ok = False
                    break
            if not ok:
                if stats is not None:
                    stats["backtracks"] = stats.get("backtracks", 0) + 1
                continue
            f[u] = v
            used.add(v)
            yield from rec(i + 1)
            del f[u]
            used.discard(v)

    yield from rec(0)


def exists(m1, m2, **kw):
    for _ in mappings(m1, m2, **kw):
        return True
    return False


def all_mappings(m1, m2, **kw):
    return list(mappings(m1, m2, **kw))


def is_valid(m1, m2, f, labels=None, roles=True, stereo=True, changes=True):
    """Direct validity test of one mapping (for large graphs)."""
    a1, a2 = set(m1.atoms), set(m2.atoms)
    if set(f) != a1 or set(f.values()) != a2 or len(set(f.values())) != len(f):
        return False
    if labels is None:
        if any(m1.atoms[a]["atom_type"] != m2.atoms[f[a]]["atom_type"]
               for a in a1):
            return False
    else:
        l1, l2 = labels
        if any(l1[a] != l2[f[a]] for a in a1):
            return False
    if len(m1.bonds) != len(m2.bonds):
        return False
    for b, at in m1.bonds.items():
        e2 = m2.bonds.get(frozenset(f[a] for a in b))
        if e2 is None:
            return False
        if roles and at.get("reaction") != e2.get("reaction"):
            return False
    return descs_preserved(m1, m2, f, stereo, changes)
