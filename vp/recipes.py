"""JSON-able graph recipes <-> real graphs <-> reference models.

recipe = {"cls": "MG|SMG|CRG|SCRG",
          "atoms": [[id, Z, {attrs}], ...],            # insertion order
          "bonds": [[a, b, role|null, {attrs}], ...],  # insertion order
          "atom_stereo": [[cls, [atoms], parity], ...],
          "bond_stereo": [[cls, [atoms], parity], ...],
          "atom_changes": [{role: desc, ...}, ...],
          "bond_changes": [{role: desc, ...}, ...]}
Real graphs are built through the public mutators only.
"""
from __future__ import annotations

from vp.harness import HarnessError
from vp.model import Model, desc, prune, validity_error

_CLS = None
_SD = None


def classes():
    global _CLS, _SD
    if _CLS is None:
        from stereomolgraph import (CondensedReactionGraph, MolGraph,
                                    StereoCondensedReactionGraph,
                                    StereoMolGraph)
        import stereomolgraph.stereodescriptors as sd
        _CLS = {"MG": MolGraph, "SMG": StereoMolGraph,
                "CRG": CondensedReactionGraph,
                "SCRG": StereoCondensedReactionGraph}
        _SD = sd
    return _CLS


def mk_desc(d):
    classes()
    return getattr(_SD, d[0])(tuple(d[1]), d[2])


def change_enum(role):
    from stereomolgraph.graphs.crg import Change
    return {"formed": Change.FORMED, "broken": Change.BROKEN,
            "fleeting": Change.FLEETING}[role]


def empty(cls):
    return {"cls": cls, "atoms": [], "bonds": [], "atom_stereo": [],
            "bond_stereo": [], "atom_changes": [], "bond_changes": []}


def add_bond_real(g, a, b, role, attrs):
    if role is None:
        g.add_bond(a, b, **attrs)
    elif role == "formed":
        g.add_formed_bond(a, b, **attrs)
    elif role == "broken":
        g.add_broken_bond(a, b, **attrs)
    elif role == "fleeting":
        g.add_fleeting_bond(a, b, **attrs)
    else:
        raise ValueError(role)


def build(r, pool=None):
    """recipe -> real graph (public mutators only).  With r["alias"] (or an
    explicit ``pool`` shared between builds) descriptors with identical
    class / atoms / parity are one and the same Python object wherever they
    are stored - a caller is free to pass one instance several times."""
    G = classes()[r["cls"]]()
    if pool is None and r.get("alias"):
        pool = {}

    def mk(d):
        if pool is None:
            return mk_desc(d)
        key = (d[0], tuple(d[1]), d[2])
        if key not in pool:
            pool[key] = mk_desc(d)
        return pool[key]

    for a, z, attrs in r["atoms"]:
        G.add_atom(a, z, **attrs)
    for a, b, role, attrs in r["bonds"]:
        add_bond_real(G, a, b, role, attrs)
    def statics():
        for d in r.get("atom_stereo", ()):
            G.set_atom_stereo(mk(d))
        for d in r.get("bond_stereo", ()):
            G.set_bond_stereo(mk(d))

    def changes():
        for ch in r.get("atom_changes", ()):
            G.set_atom_stereo_change(**{k: mk(d) for k, d in ch.items()})
        for ch in r.get("bond_changes", ()):
            G.set_bond_stereo_change(**{k: mk(d) for k, d in ch.items()})

    # the order of the two kinds of call is the caller's business
    for step in ((changes, statics) if r.get("changes_first")
                 else (statics, changes)):
        step()
    return G


def model(r):
    """recipe -> reference model"""
    m = Model(r["cls"])
    for a, z, attrs in r["atoms"]:
        m.add_atom(a, z, **attrs)
    for a, b, role, attrs in r["bonds"]:
        m.add_bond(a, b, role, **attrs)
    for d in r.get("atom_stereo", ()):
        m.set_atom_stereo(d)
    for d in r.get("bond_stereo", ()):
        m.set_bond_stereo(d)
    for ch in r.get("atom_changes", ()):
        m.set_atom_change(**ch)
    for ch in r.get("bond_changes", ()):
        m.set_bond_change(**ch)
    return m


def _jd(d):
    return [d[0], list(d[1]), d[2]]


def from_model(m):
    """model -> recipe (dictionary iteration order = insertion order)"""
    r = empty(m.cls)
    for a, at in m.atoms.items():
        extra = {k: v for k, v in at.items() if k != "atom_type"}
        r["atoms"].append([a, at["atom_type"], extra])
    for b, at in m.bonds.items():
        x, y = sorted(b)
        extra = {k: v for k, v in at.items() if k != "reaction"}
        r["bonds"].append([x, y, at.get("reaction"), extra])
    r["atom_stereo"] = [_jd(d) for d in m.atom_stereo.values()]
    r["bond_stereo"] = [_jd(d) for d in m.bond_stereo.values()]
    r["atom_changes"] = [{k: _jd(d) for k, d in ch.items()}
                         for ch in m.atom_changes.values() if ch]
    r["bond_changes"] = [{k: _jd(d) for k, d in ch.items()}
                         for ch in m.bond_changes.values() if ch]
    return r


def n_descs(r):
    return (len(r.get("atom_stereo", ())) + len(r.get("bond_stereo", ()))
            + sum(len(c) for c in r.get("atom_changes", ()))
            + sum(len(c) for c in r.get("bond_changes", ())))


def all_descs(r):
    for d in r.get("atom_stereo", ()):
        yield d
    for d in r.get("bond_stereo", ()):
        yield d
    for ch in r.get("atom_changes", ()):
        yield from ch.values()
    for ch in r.get("bond_changes", ()):
        yield from ch.values()


def features(r):
    """classifier labels of a recipe"""
    labs = [f"cls:{r['cls']}", f"n:{min(len(r['atoms']), 12)}"]
    ds = list(all_descs(r))
    for d in ds:
        labs.append(f"desc:{d[0]}")
    if any(None in d[1] for d in ds):
        labs.append("has-placeholder")
    if any(d[2] is None for d in ds):
        labs.append("has-none-parity")
    bonded = {x for b in r["bonds"] for x in b[:2]}
    if any(a[0] not in bonded for a in r["atoms"]):
        labs.append("has-isolated")
    if any(b[2] for b in r["bonds"]):
        labs.append("has-role")
    if r.get("atom_changes") or r.get("bond_changes"):
        labs.append("has-change")
    if not r["atoms"]:
        labs.append("empty")
    return sorted(set(labs))


def require_valid(r, strict=True):
    """Raise HarnessError when a recipe is outside the generated domain (so
    that delta debugging cannot drift to ill-formed inputs)."""
    ids = [a[0] for a in r["atoms"]]
    if len(set(ids)) != len(ids):
        raise HarnessError("recipe: duplicate atom ids")
    seen = set()
    for b in r["bonds"]:
        k = frozenset(b[:2])
        if len(k) != 2 or k in seen or not k <= set(ids):
            raise HarnessError(f"recipe: bad bond {b}")
        seen.add(k)
    try:
        m = model(r)
    except (AssertionError, KeyError, IndexError, TypeError) as e:
        raise HarnessError(f"recipe: cannot build model: {e!r}")
    if n_descs(r) != sum(1 for _ in m.all_descs()):
        raise HarnessError("recipe: two descriptors on one centre")
    err = validity_error(m, strict)
    if err:
        raise HarnessError(f"recipe out of domain: {err}")
    return m


def shrink_candidates(r, strict=True):
    """see _shrink_candidates; the aliasing flag of the recipe is kept, and
    dropping it is a candidate of its own"""
    for c in _shrink_candidates(r, strict):
        for flag in ("alias", "changes_first"):
            if r.get(flag):
                c[flag] = True
        yield c
    for flag in ("alias", "changes_first"):
        if r.get(flag):
            yield {k: v for k, v in r.items() if k != flag}


def _shrink_candidates(r, strict=True):
    """Smaller recipes that stay inside the generated domain: remove an atom
    (with its bonds and every descriptor that thereby loses validity), a
    bond, a descriptor, a change role, a bond role, an attribute."""
    m = model(r)
    for a in list(m.atoms):
        m2 = m.copy()
        m2.remove_atom(a)
        yield from_model(prune(m2, strict))
    for b in list(m.bonds):
        m2 = m.copy()
        del m2.bonds[b]
        yield from_model(prune(m2, strict))
    for kd, key, role, d in list(m.all_descs()):
        m2 = m.copy()
        if role is None:
            del (m2.atom_stereo if kd == "atom" else m2.bond_stereo)[key]
        else:
            t = m2.atom_changes if kd == "atom" else m2.bond_changes
            del t[key][role]
            if not t[key]:
                del t[key]
        yield from_model(m2)
    for b, at in m.bonds.items():
        if "reaction" in at:
            m2 = m.copy()
            del m2.bonds[b]["reaction"]
            yield from_model(prune(m2, strict))
    for a, at in m.atoms.items():
        for k in at:
            if k != "atom_type":
                m2 = m.copy()
                del m2.atoms[a][k]
                yield from_model(m2)
    for b, at in m.bonds.items():
        for k in at:
            if k != "reaction":
                m2 = m.copy()
                del m2.bonds[b][k]
                yield from_model(m2)
