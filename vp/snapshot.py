"""Normalised "all public views" snapshot of a real graph.

Only public API is used.  ``snapshot(g)`` returns the same normal form as
``Model.snapshot()``; while collecting it, every pair of views that must agree
is compared and a disagreement raises ``Violation`` with a signature of the
form ``<prefix>/incoherent/<what>``.

Normalisation (DESIGN 2.5 rule 1): empty neighbour sets and change dicts with
no non-None entry are not views.  Anything that shows up in ``atoms`` /
``bonds`` (e.g. a phantom atom without an element) is real.
"""
from __future__ import annotations

from vp.harness import Violation, guard


def kind_of(g) -> str:
    return {"MolGraph": "MG", "StereoMolGraph": "SMG",
            "CondensedReactionGraph": "CRG",
            "StereoCondensedReactionGraph": "SCRG"}[type(g).__name__]


def desc_of(s):
    if s is None:
        return None
    return (type(s).__name__, tuple(s.atoms), s.parity)


def _plain(v):
    """attribute values: enums -> their value"""
    val = getattr(v, "value", None)
    if val is not None and type(v).__name__ == "Change":
        return val
    try:
        import numpy as np
        if isinstance(v, np.generic):
            return v.item()
    except Exception:  # pragma: no cover
        pass
    return v


def snapshot(g, prefix="snap", deep=True):
    P = prefix
    with guard(f"{P}/views"):
        cls = kind_of(g)
        atoms = list(g.atoms)
        awa = {a: dict(at) for a, at in g.atoms_with_attributes.items()}
        bonds = [frozenset(b) for b in g.bonds]
        bwa = {frozenset(b): dict(at)
               for b, at in g.bonds_with_attributes.items()}
        n_len = len(g)
        n_atoms = g.n_atoms
    if len(set(atoms)) != len(atoms) or set(atoms) != set(awa):
        raise Violation(f"{P}/incoherent/atoms-vs-atoms_with_attributes",
                        f"{atoms} vs {sorted(awa)}")
    if n_len != len(atoms) or n_atoms != len(atoms):
        raise Violation(f"{P}/incoherent/len", f"{n_len} {n_atoms} {atoms}")
    for a in atoms:
        if "atom_type" not in awa[a]:
            raise Violation(f"{P}/incoherent/atom-without-element",
                            f"atom {a!r} has attributes {awa[a]}; atoms="
                            f"{atoms}")
    with guard(f"{P}/views/atom_types"):
        types = tuple(g.atom_types)
    if len(types) != len(atoms) or any(
            awa[a]["atom_type"] != t for a, t in zip(atoms, types)):
        raise Violation(f"{P}/incoherent/atom_types-alignment",
                        f"{atoms} {types} {awa}")
    if set(bonds) != set(bwa) or len(set(bonds)) != len(bonds):
        raise Violation(f"{P}/incoherent/bonds-vs-bonds_with_attributes",
                        f"{bonds} vs {list(bwa)}")
    aset = set(atoms)
    for b in bonds:
        if len(b) != 2 or not b <= aset:
            raise Violation(f"{P}/incoherent/bond-not-between-two-atoms",
                            f"bond {set(b)} atoms {atoms}")
    expect_nbr = {a: set() for a in atoms}
    for b in bonds:
        x, y = tuple(b)
        expect_nbr[x].add(y)
        expect_nbr[y].add(x)
    if deep:
        with guard(f"{P}/views/neighbors"):
            nbrs = {a: set(s) for a, s in g.neighbors.items()}
        for a, s in nbrs.items():
            if a not in aset:
                # also an empty entry: the view then lists something that
                # is not an atom
                raise Violation(f"{P}/incoherent/neighbors-of-absent-atom",
                                f"{a!r}: {s}")
        for a in atoms:
            if nbrs.get(a, set()) != expect_nbr[a]:
                raise Violation(f"{P}/incoherent/neighbors-vs-bonds",
                                f"atom {a}: neighbors={nbrs.get(a)} "
                                f"bonds say {expect_nbr[a]}")
        for a in atoms:
            with guard(f"{P}/views/bonded_to"):
                bt = set(g.bonded_to(a))
            if bt != expect_nbr[a]:
                raise Violation(f"{P}/incoherent/bonded_to-vs-bonds",
                                f"atom {a}: bonded_to={bt} bonds say "
                                f"{expect_nbr[a]}")
        with guard(f"{P}/views/has_bond"):
            for i, a in enumerate(atoms):
                if not g.has_atom(a):
                    raise Violation(f"{P}/incoherent/has_atom", f"{a}")
                for b in atoms[i + 1:]:
                    hb = g.has_bond(a, b)
                    if hb != (frozenset((a, b)) in bwa):
                        raise Violation(f"{P}/incoherent/has_bond",
                                        f"{a},{b}: {hb}")
        with guard(f"{P}/views/connectivity_matrix"):
            mat = g.connectivity_matrix()
            mat = [[int(x) for x in row] for row in mat]
        if len(mat) != len(atoms):
            raise Violation(f"{P}/incoherent/matrix-shape", f"{mat}")
        for i, a in enumerate(atoms):
            for j, b in enumerate(atoms):
                want = 1 if (i != j and b in expect_nbr[a]) else 0
                if mat[i][j] != want:
                    raise Violation(f"{P}/incoherent/connectivity_matrix",
                                    f"[{a},{b}]={mat[i][j]} want {want}")
        with guard(f"{P}/views/connected_components"):
            comps = [frozenset(c) for c in g.connected_components()]
        want_c = _components(atoms, expect_nbr)
        if len(comps) != len(set(comps)) or set(comps) != want_c:
            raise Violation(f"{P}/incoherent/connected_components",
                            f"{comps} want {want_c}")

    snap = {
        "cls": cls,
        "atoms": {a: {k: _plain(v) for k, v in awa[a].items()}
                  for a in atoms},
        "bonds": {tuple(sorted(b)): {k: _plain(v) for k, v in bwa[b].items()}
                  for b in bonds},
        "atom_stereo": {}, "bond_stereo": {},
        "atom_changes": {}, "bond_changes": {},
    }

    if cls in ("CRG", "SCRG"):
        with guard(f"{P}/views/reaction-bonds"):
            formed = {frozenset(b) for b in g.get_formed_bonds()}
            broken = {frozenset(b) for b in g.get_broken_bonds()}
            fleet = {frozenset(b) for b in g.get_fleeting_bonds()}
        for name, got in (("formed", formed), ("broken", broken),
                          ("fleeting", fleet)):
            want = {b for b in bonds
                    if _plain(bwa[b].get("reaction")) == name}
            if got != want:
                raise Violation(f"{P}/incoherent/{name}-bonds",
                                f"{got} vs attribute view {want}")
        for b in bonds:
            r = bwa[b].get("reaction", None)
            if "reaction" in bwa[b] and _plain(r) not in (
                    "formed", "broken", "fleeting"):
                raise Violation(f"{P}/incoherent/reaction-attribute-type",
                                f"bond {set(b)}: {r!r}")

    if cls in ("SMG", "SCRG"):
        with guard(f"{P}/views/stereo"):
            a_st = dict(g.atom_stereo)
            b_st = {frozenset(k): v for k, v in g.bond_stereo.items()}
            st = dict(g.stereo)
        for k, s in a_st.items():
            if s.central_atom != k:
                raise Violation(f"{P}/incoherent/atom_stereo-key",
                                f"{k}: {s!r}")
            snap["atom_stereo"][k] = desc_of(s)
        for k, s in b_st.items():
            if frozenset(s.bond) != k:
                raise Violation(f"{P}/incoherent/bond_stereo-key",
                                f"{set(k)}: {s!r}")
            snap["bond_stereo"][tuple(sorted(k))] = desc_of(s)
        merged = {**a_st, **b_st}
        st_n = {(frozenset(k) if not isinstance(k, int) else k): v
                for k, v in st.items()}
        if set(st_n) != set(merged) or any(
                desc_of(st_n[k]) != desc_of(merged[k]) for k in merged):
            raise Violation(f"{P}/incoherent/stereo-union", f"{st} {merged}")
        if deep:
            for a in atoms:
                with guard(f"{P}/views/get_atom_stereo"):
                    s = g.get_atom_stereo(a)
                if desc_of(s) != desc_of(a_st.get(a)):
                    raise Violation(f"{P}/incoherent/get_atom_stereo",
                                    f"{a}: {s!r} vs {a_st.get(a)!r}")
            for b in bonds:
                with guard(f"{P}/views/get_bond_stereo"):
                    s = g.get_bond_stereo(b)
                if desc_of(s) != desc_of(b_st.get(b)):
                    raise Violation(f"{P}/incoherent/get_bond_stereo",
                                    f"{set(b)}: {s!r} vs {b_st.get(b)!r}")

    if cls == "SCRG":
        with guard(f"{P}/views/stereo-changes"):
            a_ch = {k: dict(v) for k, v in g.atom_stereo_changes.items()}
            b_ch = {frozenset(k): dict(v)
                    for k, v in g.bond_stereo_changes.items()}
        for k, ch in a_ch.items():
            norm = {_plain(r): desc_of(s) for r, s in ch.items()
                    if s is not None}
            for r, s in ch.items():
                if s is not None and s.central_atom != k:
                    raise Violation(f"{P}/incoherent/atom-change-key",
                                    f"{k}: {s!r}")
            if not norm:
                # the public table lists an atom without any stereo change
                raise Violation(f"{P}/incoherent/empty-atom-change-entry",
                                f"{k}: {ch}")
            snap["atom_changes"][k] = norm
        for k, ch in b_ch.items():
            norm = {_plain(r): desc_of(s) for r, s in ch.items()
                    if s is not None}
            for r, s in ch.items():
                if s is not None and frozenset(s.bond) != k:
                    raise Violation(f"{P}/incoherent/bond-change-key",
                                    f"{set(k)}: {s!r}")
            if not norm:
                raise Violation(f"{P}/incoherent/empty-bond-change-entry",
                                f"{set(k)}: {ch}")
            snap["bond_changes"][tuple(sorted(k))] = norm
        if deep:
            for a in atoms:
                with guard(f"{P}/views/get_atom_stereo_change"):
                    ch = g.get_atom_stereo_change(a)
                norm = ({_plain(r): desc_of(s) for r, s in ch.items()
                         if s is not None} if ch is not None else {})
                if norm != snap["atom_changes"].get(a, {}):
                    raise Violation(
                        f"{P}/incoherent/get_atom_stereo_change",
                        f"{a}: {norm} vs {snap['atom_changes'].get(a)}")
            for b in bonds:
                with guard(f"{P}/views/get_bond_stereo_change"):
                    ch = g.get_bond_stereo_change(b)
                norm = ({_plain(r): desc_of(s) for r, s in ch.items()
                         if s is not None} if ch is not None else {})
                key = tuple(sorted(b))
                if norm != snap["bond_changes"].get(key, {}):
                    raise Violation(
                        f"{P}/incoherent/get_bond_stereo_change",
                        f"{set(b)}: {norm} vs "
                        f"{snap['bond_changes'].get(key)}")
    return snap


def _components(atoms, adj):
    seen, out = set(), set()
    for a in atoms:
        if a in seen:
            continue
        comp, stack = set(), [a]
        while stack:
            x = stack.pop()
            if x in comp:
                continue
            comp.add(x)
            stack.extend(adj[x] - comp)
        seen |= comp
        out.add(frozenset(comp))
    return out


def dangling(snap):
    """Descriptors (static or in changes) that mention an atom that is not in
    the graph, or are keyed by an absent atom / bond.  -> list of strings."""
    aset = set(snap["atoms"])
    out = []
    for key in ("atom_stereo", "bond_stereo"):
        for k, d in snap[key].items():
            miss = [a for a in d[1] if a is not None and a not in aset]
            if miss:
                out.append(f"{key}[{k}]={d} mentions absent {miss}")
    for key in ("atom_changes", "bond_changes"):
        for k, ch in snap[key].items():
            for r, d in ch.items():
                miss = [a for a in d[1] if a is not None and a not in aset]
                if miss:
                    out.append(f"{key}[{k}][{r}]={d} mentions absent {miss}")
    return out
