"""Child process for C03: rebuild recipes, print their hashes as JSON."""
import json
import sys

from vp import recipes as rc


def main():
    recipes = json.load(sys.stdin)
    out = []
    for r in recipes:
        try:
            out.append(hash(rc.build(r)))
        except Exception as e:  # reported by the parent as a violation
            out.append(f"raises-{type(e).__name__}")
    json.dump(out, sys.stdout)


if __name__ == "__main__":
    main()
