"""Reference model of the four graph classes (deliberately dull pure Python).

Written from the docstrings and the property statements; never calls the code
under test.  Desc = (class_name, atoms_tuple, parity).  Bond roles are the
strings 'formed' / 'broken' / 'fleeting' stored under the bond attribute
'reaction' (absent = unchanged bond).
"""
from __future__ import annotations

import copy

from vp import symmetry as sym

CLS_NAMES = ("MG", "SMG", "CRG", "SCRG")
STEREO = {"SMG", "SCRG"}
REACTION = {"CRG", "SCRG"}
ROLES = ("broken", "fleeting", "formed")


def fs(a, b=None):
    if b is None:
        return frozenset(a)
    return frozenset((a, b))


def desc(d):
    """normalise a JSON-ish descriptor to (cls, tuple, parity)"""
    return (d[0], tuple(d[1]), d[2])


def desc_atoms(d):
    return [a for a in d[1] if a is not None]


def desc_centre(d):
    return d[1][0]


def desc_bond(d):
    return frozenset(d[1][2:4])


class Model:
    def __init__(self, cls="MG"):
        assert cls in CLS_NAMES
        self.cls = cls
        self.atoms = {}          # id -> attrs (incl. atom_type)
        self.bonds = {}          # frozenset -> attrs (role under 'reaction')
        self.atom_stereo = {}    # id -> Desc
        self.bond_stereo = {}    # frozenset -> Desc
        self.atom_changes = {}   # id -> {role: Desc}
        self.bond_changes = {}   # frozenset -> {role: Desc}

    # ---- basic -------------------------------------------------------
    def copy(self):
        return copy.deepcopy(self)

    @property
    def is_stereo(self):
        return self.cls in STEREO

    @property
    def is_reaction(self):
        return self.cls in REACTION

    def add_atom(self, a, z, **attrs):
        self.atoms[a] = {"atom_type": z, **attrs}

    def add_bond(self, a, b, role=None, **attrs):
        assert a in self.atoms and b in self.atoms and a != b
        at = dict(attrs)
        if role is not None:
            at["reaction"] = role
        self.bonds[fs(a, b)] = at

    def remove_bond(self, a, b):
        del self.bonds[fs(a, b)]

    def remove_atom(self, a):
        del self.atoms[a]
        for b in [b for b in self.bonds if a in b]:
            del self.bonds[b]
        for k in [k for k, d in self.atom_stereo.items() if a in d[1]]:
            del self.atom_stereo[k]
        for k in [k for k, d in self.bond_stereo.items() if a in d[1]]:
            del self.bond_stereo[k]
        for table in (self.atom_changes, self.bond_changes):
            for k in list(table):
                ch = table[k]
                for role in [r for r, d in ch.items() if a in d[1]]:
                    del ch[role]
                if not ch:
                    del table[k]

    def neighbours(self, a):
        return {next(iter(b - {a})) for b in self.bonds if a in b}

    def role(self, bond):
        return self.bonds[bond].get("reaction")

    def bonds_in(self, state):
        """bond set of 'reactant' / 'product' / 'ts'"""
        out = set()
        for b, at in self.bonds.items():
            r = at.get("reaction")
            if state == "ts":
                out.add(b)
            elif state == "reactant" and r in (None, "broken"):
                out.add(b)
            elif state == "product" and r in (None, "formed"):
                out.add(b)
        return out

    def set_atom_stereo(self, d):
        d = desc(d)
        self.atom_stereo[desc_centre(d)] = d

    def set_bond_stereo(self, d):
        d = desc(d)
        self.bond_stereo[desc_bond(d)] = d

    def set_atom_change(self, **roles):
        ds = {r: desc(d) for r, d in roles.items() if d is not None}
        centres = {desc_centre(d) for d in ds.values()}
        assert len(centres) == 1
        self.atom_changes[centres.pop()] = ds

    def set_bond_change(self, **roles):
        ds = {r: desc(d) for r, d in roles.items() if d is not None}
        bonds = {desc_bond(d) for d in ds.values()}
        assert len(bonds) == 1
        self.bond_changes[bonds.pop()] = ds

    # ---- derived -----------------------------------------------------
    def components(self):
        seen, comps = set(), []
        adj = {a: set() for a in self.atoms}
        for b in self.bonds:
            x, y = tuple(b)
            adj[x].add(y)
            adj[y].add(x)
        for a in self.atoms:
            if a in seen:
                continue
            comp, stack = set(), [a]
            while stack:
                x = stack.pop()
                if x in comp:
                    continue
                comp.add(x)
                stack.extend(adj[x] - comp)
            seen |= comp
            comps.append(frozenset(comp))
        return set(comps)

    def relabel(self, mapping):
        f = lambda a: a if a is None else mapping.get(a, a)  # noqa: E731
        fd = lambda d: (d[0], tuple(f(a) for a in d[1]), d[2])  # noqa: E731
        m = Model(self.cls)
        m.atoms = {f(a): copy.deepcopy(at) for a, at in self.atoms.items()}
        assert len(m.atoms) == len(self.atoms), "mapping not injective"
        m.bonds = {frozenset(f(a) for a in b): copy.deepcopy(at)
                   for b, at in self.bonds.items()}
        m.atom_stereo = {f(k): fd(d) for k, d in self.atom_stereo.items()}
        m.bond_stereo = {frozenset(f(a) for a in k): fd(d)
                         for k, d in self.bond_stereo.items()}
        m.atom_changes = {f(k): {r: fd(d) for r, d in ch.items()}
                          for k, ch in self.atom_changes.items()}
        m.bond_changes = {frozenset(f(a) for a in k):
                          {r: fd(d) for r, d in ch.items()}
                          for k, ch in self.bond_changes.items()}
        return m

    def subgraph(self, S):
        S = set(S)
        inside = lambda d: all(a in S for a in desc_atoms(d))  # noqa: E731
        m = Model(self.cls)
        m.atoms = {a: copy.deepcopy(at) for a, at in self.atoms.items()
                   if a in S}
        m.bonds = {b: copy.deepcopy(at) for b, at in self.bonds.items()
                   if b <= S}
        m.atom_stereo = {k: d for k, d in self.atom_stereo.items()
                         if inside(d)}
        m.bond_stereo = {k: d for k, d in self.bond_stereo.items()
                         if inside(d)}
        for src, dst in ((self.atom_changes, m.atom_changes),
                         (self.bond_changes, m.bond_changes)):
            for k, ch in src.items():
                keep = {r: d for r, d in ch.items() if inside(d)}
                if keep:
                    dst[k] = keep
        return m

    def enantiomer(self):
        m = self.copy()
        m.atom_stereo = {k: sym.invert(d) for k, d in m.atom_stereo.items()}
        m.bond_stereo = {k: sym.invert(d) for k, d in m.bond_stereo.items()}
        m.atom_changes = {k: {r: sym.invert(d) for r, d in ch.items()}
                          for k, ch in m.atom_changes.items()}
        m.bond_changes = {k: {r: sym.invert(d) for r, d in ch.items()}
                          for k, ch in m.bond_changes.items()}
        return m

    def reverse(self):
        m = self.copy()
        swap = {"formed": "broken", "broken": "formed",
                "fleeting": "fleeting", None: None}
        for b, at in m.bonds.items():
            if "reaction" in at:
                at["reaction"] = swap[at["reaction"]]
        m.atom_changes = {k: {swap[r]: d for r, d in ch.items()}
                          for k, ch in m.atom_changes.items()}
        m.bond_changes = {k: {swap[r]: d for r, d in ch.items()}
                          for k, ch in m.bond_changes.items()}
        return m

    def state(self, which, keep_attributes=True):
        """reactant / product / ts as a (stereo) molecule model."""
        role = {"reactant": "broken", "product": "formed",
                "ts": "fleeting"}[which]
        m = Model("SMG" if self.is_stereo else "MG")
        for a, at in self.atoms.items():
            m.atoms[a] = (copy.deepcopy(at) if keep_attributes
                          else {"atom_type": at["atom_type"]})
        for b in self.bonds_in(which):
            at = {k: v for k, v in self.bonds[b].items() if k != "reaction"}
            m.bonds[b] = at if keep_attributes else {}
        if self.is_stereo:
            m.atom_stereo = dict(self.atom_stereo)
            m.bond_stereo = dict(self.bond_stereo)
            for k, ch in self.atom_changes.items():
                if role in ch:
                    m.atom_stereo[k] = ch[role]
            for k, ch in self.bond_changes.items():
                if role in ch:
                    m.bond_stereo[k] = ch[role]
        return m

    @staticmethod
    def compose(cls, models):
        m = Model(cls)
        for g in models:
            for a, at in g.atoms.items():
                m.atoms[a] = copy.deepcopy(at)
            for b, at in g.bonds.items():
                m.bonds[b] = copy.deepcopy(at)
            m.atom_stereo.update(g.atom_stereo)
            m.bond_stereo.update(g.bond_stereo)
            for k, ch in g.atom_changes.items():
                m.atom_changes[k] = dict(ch)
            for k, ch in g.bond_changes.items():
                m.bond_changes[k] = dict(ch)
        return m

    # ---- views -------------------------------------------------------
    def all_descs(self):
        """(kind, key, role, desc) for every descriptor"""
        for k, d in self.atom_stereo.items():
            yield ("atom", k, None, d)
        for k, d in self.bond_stereo.items():
            yield ("bond", k, None, d)
        for k, ch in self.atom_changes.items():
            for r, d in ch.items():
                yield ("atom", k, r, d)
        for k, ch in self.bond_changes.items():
            for r, d in ch.items():
                yield ("bond", k, r, d)

    def snapshot(self):
        """Same normal form as vp.snapshot.snapshot(real)."""
        def bk(b):
            return tuple(sorted(b))
        return {
            "cls": self.cls,
            "atoms": {a: dict(at) for a, at in self.atoms.items()},
            "bonds": {bk(b): dict(at) for b, at in self.bonds.items()},
            "atom_stereo": dict(self.atom_stereo),
            "bond_stereo": {bk(k): d for k, d in self.bond_stereo.items()},
            "atom_changes": {k: dict(ch) for k, ch in
                             self.atom_changes.items() if ch},
            "bond_changes": {bk(k): dict(ch) for k, ch in
                             self.bond_changes.items() if ch},
        }


def snap_diff(s1, s2, descriptors="exact", attrs=True):
    """First difference between two snapshots or None.

    descriptors: 'exact' (same tuples), 'canon' (same arrangement; an
    unspecified parity matches anything over the same atoms) or 'ignore'.
    """
    if s1["cls"] != s2["cls"]:
        return f"class {s1['cls']} vs {s2['cls']}"
    if set(s1["atoms"]) != set(s2["atoms"]):
        return (f"atom sets differ: only-left="
                f"{sorted(set(s1['atoms']) - set(s2['atoms']))} only-right="
                f"{sorted(set(s2['atoms']) - set(s1['atoms']))}")
    for a in s1["atoms"]:
        x, y = s1["atoms"][a], s2["atoms"][a]
        if attrs:
            if x != y:
                return f"attributes of atom {a}: {x} vs {y}"
        elif x.get("atom_type") != y.get("atom_type"):
            return f"element of atom {a}: {x} vs {y}"
    if set(s1["bonds"]) != set(s2["bonds"]):
        return (f"bond sets differ: only-left="
                f"{sorted(set(s1['bonds']) - set(s2['bonds']))} only-right="
                f"{sorted(set(s2['bonds']) - set(s1['bonds']))}")
    for b in s1["bonds"]:
        x, y = s1["bonds"][b], s2["bonds"][b]
        if attrs:
            if x != y:
                return f"attributes of bond {b}: {x} vs {y}"
        elif x.get("reaction") != y.get("reaction"):
            return f"role of bond {b}: {x} vs {y}"
    if descriptors == "ignore":
        return None

    def same(d1, d2):
        if descriptors == "exact":
            return d1 == d2
        return sym.same_or_unspecified(d1, d2)

    for key in ("atom_stereo", "bond_stereo"):
        if set(s1[key]) != set(s2[key]):
            return (f"{key} keys differ: {sorted(s1[key], key=repr)} vs "
                    f"{sorted(s2[key], key=repr)}")
        for k in s1[key]:
            if not same(s1[key][k], s2[key][k]):
                return f"{key}[{k}]: {s1[key][k]} vs {s2[key][k]}"
    for key in ("atom_changes", "bond_changes"):
        if set(s1[key]) != set(s2[key]):
            return (f"{key} keys differ: {sorted(s1[key], key=repr)} vs "
                    f"{sorted(s2[key], key=repr)}")
        for k in s1[key]:
            c1, c2 = s1[key][k], s2[key][k]
            if set(c1) != set(c2):
                return f"{key}[{k}] roles: {sorted(c1)} vs {sorted(c2)}"
            for r in c1:
                if not same(c1[r], c2[r]):
                    return f"{key}[{k}][{r}]: {c1[r]} vs {c2[r]}"
    return None


def _state_adj(m):
    adj = {}
    for state in ("reactant", "product", "ts"):
        a = {x: set() for x in m.atoms}
        for b in m.bonds_in(state):
            x, y = tuple(b)
            a[x].add(y)
            a[y].add(x)
        adj[state] = a
    return adj


_ST_OF = {None: "ts", "broken": "reactant", "formed": "product",
          "fleeting": "ts"}


def desc_error(m, adj, kd, key, role, d, strict=True):
    cls, atoms, par = d
    if cls not in sym.NPOS or len(atoms) != sym.NPOS[cls]:
        return f"bad descriptor {d}"
    if par is not None and par not in sym.parity_for_class(cls, par):
        return f"bad parity {d}"
    real = [a for a in atoms if a is not None]
    if not set(real) <= set(m.atoms):
        return f"descriptor atoms not in graph: {d}"
    if cls in sym.ATOM_CLASSES and len(set(real)) != len(real):
        return f"descriptor atoms repeated: {d}"
    if cls in sym.BOND_CLASSES:
        # a three-membered ring puts the same atom on both ends
        ends = ([a for a in atoms[0:2] if a is not None],
                [a for a in atoms[4:6] if a is not None])
        if any(len(set(e)) != len(e) for e in ends) or \
                {atoms[2], atoms[3]} & set(ends[0] + ends[1]):
            return f"descriptor atoms repeated: {d}"
    A = adj[_ST_OF[role]]
    if role is None and m.is_reaction:
        # a static descriptor describes stereo that is the same in reactant,
        # product and TS: the centre / bond atoms have unchanged bonds only
        cen = [atoms[0]] if cls in sym.ATOM_CLASSES else [atoms[2], atoms[3]]
        for c in cen:
            if c is None or c not in m.atoms:
                return f"bad centre {d}"
            for x in adj["ts"][c]:
                if "reaction" in m.bonds[frozenset((c, x))]:
                    return (f"static descriptor {d} on atom {c} that has a "
                            f"changing bond")
    if cls in sym.ATOM_CLASSES:
        c = atoms[0]
        if c is None or kd != "atom" or key != c:
            return f"bad centre {d}"
        lig = {a for a in atoms[1:] if a is not None}
        if strict and lig != A[c]:
            return f"ligands {lig} != neighbours {A[c]} of {c} ({role})"
        if not lig <= A[c]:
            return f"ligand not bonded: {d}"
    else:
        x, y = atoms[2], atoms[3]
        if x is None or y is None or kd != "bond" or key != frozenset(
                (x, y)):
            return f"bad bond centre {d}"
        if y not in A[x]:
            return f"bond of descriptor absent in state {role}: {d}"
        lx = {a for a in atoms[0:2] if a is not None}
        ly = {a for a in atoms[4:6] if a is not None}
        if strict and (lx != A[x] - {y} or ly != A[y] - {x}):
            return f"substituents do not match neighbours: {d}"
        if not (lx <= A[x] and ly <= A[y]):
            return f"substituent not bonded: {d}"
    return None


def validity_error(m: Model, strict=True):
    """None if the model is inside the generated domain: descriptors are
    stereo-valid by construction (a descriptor's atoms are the centre / bond
    atoms plus exactly their neighbours in the state the descriptor belongs
    to, padded with placeholders); otherwise a string."""
    for b in m.bonds:
        if len(b) != 2 or not b <= set(m.atoms):
            return f"bad bond {set(b)}"
        r = m.bonds[b].get("reaction")
        if r is not None and (r not in ROLES or not m.is_reaction):
            return f"bad role {r}"
    if not m.is_stereo and (m.atom_stereo or m.bond_stereo):
        return "descriptors on a non-stereo class"
    if m.cls != "SCRG" and (m.atom_changes or m.bond_changes):
        return "changes on a non-SCRG class"
    adj = _state_adj(m)
    for kd, key, role, d in m.all_descs():
        e = desc_error(m, adj, kd, key, role, d, strict)
        if e:
            return e
    return None


def prune(m: Model, strict=True):
    """drop every descriptor that is no longer valid (used by shrinking)"""
    adj = _state_adj(m)
    for kd, key, role, d in list(m.all_descs()):
        if desc_error(m, adj, kd, key, role, d, strict):
            if role is None:
                t = m.atom_stereo if kd == "atom" else m.bond_stereo
                del t[key]
            else:
                t = m.atom_changes if kd == "atom" else m.bond_changes
                del t[key][role]
                if not t[key]:
                    del t[key]
    return m


def model_from_snapshot(s) -> Model:
    """Model of whatever a real graph currently is (used to generate valid
    follow-up edits for graphs whose derivation is not under test)."""
    m = Model(s["cls"])
    m.atoms = {a: dict(at) for a, at in s["atoms"].items()}
    m.bonds = {frozenset(b): dict(at) for b, at in s["bonds"].items()}
    m.atom_stereo = dict(s["atom_stereo"])
    m.bond_stereo = {frozenset(k): d for k, d in s["bond_stereo"].items()}
    m.atom_changes = {k: dict(ch) for k, ch in s["atom_changes"].items()}
    m.bond_changes = {frozenset(k): dict(ch)
                      for k, ch in s["bond_changes"].items()}
    return m
