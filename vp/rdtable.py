"""Meaning of RDKit's square-planar / trigonal-bipyramidal / octahedral
permutation labels, obtained from RDKit itself: every placement of distinct
ligands on the vertices of the idealised figure (vp/symmetry.FIGURES order)
is given to Chem.AssignStereochemistryFrom3D and the assigned label is
recorded.  Nothing is transcribed from the OpenSMILES tables."""
from __future__ import annotations

import itertools

from rdkit import Chem
from rdkit.Geometry import Point3D

from vp import geom as G
from vp import symmetry as sym

CLS_OF_TAG = {
    Chem.ChiralType.CHI_SQUAREPLANAR: "SquarePlanar",
    Chem.ChiralType.CHI_TRIGONALBIPYRAMIDAL: "TrigonalBipyramidal",
    Chem.ChiralType.CHI_OCTAHEDRAL: "Octahedral",
}
KIND = {"SquarePlanar": "SP", "TrigonalBipyramidal": "TB",
        "Octahedral": "OH"}
_DEFAULT = {"SquarePlanar": (78, [9, 17, 35, 53]),
            "TrigonalBipyramidal": (15, [9, 17, 35, 53, 8]),
            "Octahedral": (26, [9, 17, 35, 53, 8, 7])}


def placed_mol(cls, centre, ligs, sigma, coords=None, order=None,
               bond_order=None):
    """RDKit molecule + conformer: vertex v of the figure holds ligand
    sigma[v].  Atom 0.. in ``order`` (default centre first, then ligands);
    bonds added in ``bond_order`` (ligand indices).  ``coords`` overrides the
    ideal positions (list aligned with [centre, lig0, lig1, ...])."""
    k = len(ligs)
    if coords is None:
        T = G.TEMPLATES[cls]
        pos = [None] * (k + 1)
        pos[0] = (0.0, 0.0, 0.0)
        for v, l in enumerate(sigma):
            ln = G.RADII[centre] + G.RADII[ligs[l]]
            pos[1 + l] = G.scale(T[v], ln)
        coords = pos
    order = list(order) if order is not None else list(range(k + 1))
    idx_of = {t: i for i, t in enumerate(order)}   # template atom -> rd idx
    rw = Chem.RWMol()
    for t in order:
        a = Chem.Atom(centre if t == 0 else ligs[t - 1])
        a.SetNoImplicit(True)
        rw.AddAtom(a)
    for l in (bond_order if bond_order is not None else range(k)):
        rw.AddBond(idx_of[0], idx_of[1 + l], Chem.BondType.SINGLE)
    m = rw.GetMol()
    conf = Chem.Conformer(k + 1)
    for t in range(k + 1):
        conf.SetAtomPosition(idx_of[t], Point3D(*coords[t]))
    m.AddConformer(conf, assignId=True)
    m.UpdatePropertyCache(strict=False)
    return m, idx_of


def assign_from_3d(m, centre_idx=0):
    Chem.AssignStereochemistryFrom3D(m)
    a = m.GetAtomWithIdx(centre_idx)
    lab = a.GetPropsAsDict().get("_chiralPermutation")
    return a.GetChiralTag(), lab


def _build():
    table = {}
    for cls, (centre, ligs) in _DEFAULT.items():
        k = len(ligs)
        tab = {}
        for sg in itertools.permutations(range(k)):
            m, _ = placed_mol(cls, centre, ligs, sg)
            tag, lab = assign_from_3d(m)
            if CLS_OF_TAG.get(tag) != cls or lab is None:
                raise RuntimeError(f"RDKit did not assign {cls} for {sg}")
            tab.setdefault(int(lab), []).append(sg)
        # each label must be exactly one proper-rotation orbit of the
        # geometric group (RDKit and vp/symmetry agree on what a label means)
        for lab, sgs in tab.items():
            t0 = (-1,) + sgs[0]
            orbit = {sym.apply(g, t0)[1:] for g in sym.PROPER[cls]}
            if orbit != set(sgs):
                raise RuntimeError(
                    f"{cls} label {lab}: RDKit's placements are not one "
                    f"proper-rotation orbit of the figure")
        table[cls] = {lab: sorted(sgs) for lab, sgs in tab.items()}
    return table


_TABLE = None


def table():
    global _TABLE
    if _TABLE is None:
        _TABLE = _build()
    return _TABLE


def oracle_descriptor(cls, label, centre, neighbours):
    """descriptor (in the frame of vp/symmetry.FIGURES, parity +1 / 0) of a
    centre carrying ``label`` whose RDKit neighbour order is ``neighbours``"""
    sg = table()[cls][int(label)][0]
    atoms = (centre,) + tuple(neighbours[sg[v]] for v in range(len(sg)))
    return (cls, atoms, 0 if sym.ACHIRAL[cls] else 1)
