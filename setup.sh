#!/bin/sh
# MANIFEST.setup_cmd: verify the environment offline; install hypothesis (and atheris) from the wheelhouse only if missing.
HERE="$(cd "$(dirname "$0")" && pwd)"
PY="${VP_PYTHON:-/venv/bin/python}"
if ! PYTHONPATH="$HERE/.deps" "$PY" -c "import hypothesis" 2>/dev/null; then
  "$PY" -m pip install --no-index --find-links /opt/veriftools/wheels --target "$HERE/.deps" hypothesis || exit 2
fi
# atheris drives the coverage-guided stage of the thorough tier (skipped, and said so in the evidence, if it cannot be imported)
if ! PYTHONPATH="$HERE/.deps" "$PY" -c "import atheris" 2>/dev/null; then
  "$PY" -m pip install --no-index --find-links /opt/veriftools/wheels --target "$HERE/.deps" atheris || echo "setup: atheris not installed; thorough tiers run without the coverage-guided stage"
fi
PYTHONPATH="/repo/src:$HERE/.deps" "$PY" -c "import hypothesis, numpy, rdkit, stereomolgraph; print('setup ok', hypothesis.__version__, numpy.__version__, rdkit.__version__, stereomolgraph.__file__)" || exit 2
mkdir -p "$HERE/evidence"
