#!/usr/bin/env python3
"""Verify a sub-agent mutant in a scratch worktree and file it under
/verif/seeded/<id>/.  usage: verify_seeded.py <mutant_dir> <PID> <name> [extra PIDs]"""
import json, os, shutil, subprocess, sys, tempfile, time

src, pid, name = sys.argv[1], sys.argv[2], sys.argv[3]
extra = sys.argv[4:]
patch = os.path.join(src, "patch.diff")
demo = os.path.join(src, "demo.py")
wt = tempfile.mkdtemp(prefix="vp-seed-", dir="/tmp"); os.rmdir(wt)
def sh(cmd, **kw):
    return subprocess.run(cmd, shell=True, capture_output=True, text=True, **kw)
res = {"property": pid, "name": name}
assert sh(f"git -C /repo worktree add -q --detach {wt} HEAD").returncode == 0
try:
    env = dict(os.environ, PYTHONPATH=f"{wt}/src", PYTHONHASHSEED="0")
    r0 = sh(f"cd {wt} && /venv/bin/python {demo}", env=env, timeout=900)
    res["demo_without_patch_exit"] = r0.returncode
    ap = sh(f"git -C {wt} apply {patch}")
    res["patch_applies"] = ap.returncode == 0
    if ap.returncode == 0:
        r1 = sh(f"cd {wt} && /venv/bin/python {demo}", env=env, timeout=900)
        res["demo_with_patch_exit"] = r1.returncode
        res["demo_with_patch_tail"] = (r1.stdout + r1.stderr)[-400:]
        t = sh(f"cd {wt} && /venv/bin/python -m pytest -q -p no:cacheprovider -n 6 2>&1 | tail -1", env=env, timeout=1800)
        res["suite_tail"] = t.stdout.strip()
        res["suite_passes"] = " passed" in t.stdout and "failed" not in t.stdout and "error" not in t.stdout.lower()
        ev = tempfile.mkdtemp(prefix="vp-ev-", dir="/tmp")
        res["checks"] = {}
        for p in [pid] + extra:
            t0 = time.time()
            c = sh(f"VP_REPO_SRC={wt}/src VP_EVIDENCE_DIR={ev} /verif/check {p} --tier quick", timeout=3600)
            sigs = [l.strip().replace("signature: ", "") for l in c.stdout.splitlines() if "signature:" in l]
            res["checks"][p] = {"exit": c.returncode, "seconds": round(time.time() - t0), "signatures": sigs[:6]}
        shutil.rmtree(ev, ignore_errors=True)
finally:
    sh(f"git -C /repo worktree remove --force {wt}")
out = f"/verif/seeded/{name}"
os.makedirs(out, exist_ok=True)
if os.path.realpath(src) != os.path.realpath(out):
    shutil.copy(patch, out + "/patch.diff"); shutil.copy(demo, out + "/demo.py")
meta = {}
try: meta = json.load(open(os.path.join(src, "meta.json")))
except Exception as e: meta = {"agent_meta_error": repr(e)}
prev = None
if "agent_meta" in meta and "verified_by_me" in meta:      # re-verification of a filed change
    prev = meta
    meta = meta["agent_meta"]
res["repo_head"] = sh("git -C /repo log --format=%h -1").stdout.strip()
meta_out = {"breaks_property": pid, "agent_meta": meta, "verified_by_me": res,
            "how_verified": "scratch worktree of /repo HEAD under /tmp: demo.py without patch (expect exit 0), git apply patch.diff, demo.py (expect exit 1), full pytest suite with the patch, ./check <ID> --tier quick with VP_REPO_SRC pointing at the patched worktree; worktree removed afterwards"}
if prev is not None:
    hist = prev.get("earlier_verifications", [])
    hist.append(prev["verified_by_me"])
    meta_out["earlier_verifications"] = hist[-4:]
    for k in ("note",):
        if k in prev: meta_out[k] = prev[k]
json.dump(meta_out, open(out + "/meta.json", "w"), indent=1)
ok = res.get("demo_without_patch_exit") == 0 and res.get("demo_with_patch_exit") not in (0, None) and res.get("suite_passes")
det = {p: v["exit"] for p, v in res.get("checks", {}).items()}
print(f"SEEDED {name}: valid={bool(ok)} demo0={res.get('demo_without_patch_exit')} demo1={res.get('demo_with_patch_exit')} suite={res.get('suite_tail')} detected={det}")
