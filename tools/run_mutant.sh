#!/bin/sh
# usage: tools/run_mutant.sh <patch.diff> <PID> [<PID> ...]
# Applies the patch to a scratch worktree of /repo's HEAD (outside /repo and
# /verif), runs the quick checks against it (evidence redirected), prints one
# line per check, removes the worktree.
PATCH="$(readlink -f "$1")"; shift
HERE="$(cd "$(dirname "$0")/.." && pwd)"
WT="$(mktemp -d /tmp/vp-mut-XXXXXX)"
rmdir "$WT"
git -C /repo worktree add -q --detach "$WT" HEAD || exit 2
if ! git -C "$WT" apply "$PATCH"; then
  echo "PATCH-DOES-NOT-APPLY $PATCH"; git -C /repo worktree remove --force "$WT"; exit 2
fi
EV="$(mktemp -d /tmp/vp-ev-XXXXXX)"
for PID in "$@"; do
  START=$(date +%s)
  OUT=$(VP_REPO_SRC="$WT/src" VP_EVIDENCE_DIR="$EV" "$HERE/check" "$PID" --tier "${TIER:-quick}" 2>&1)
  RC=$?
  END=$(date +%s)
  SIG=$(echo "$OUT" | grep -m3 "signature:" | tr '\n' ' ')
  echo "MUTANT $(basename $(dirname $PATCH))/$(basename $PATCH) check=$PID exit=$RC time=$((END-START))s $SIG"
  if [ "$RC" = "2" ]; then echo "$OUT" | tail -5; fi
done
git -C /repo worktree remove --force "$WT"
rm -rf "$EV"
