#!/bin/sh
cd /verif
/venv/bin/python - <<'PY' > mutants/.revert_jobs.txt
import json
for e in json.load(open('/verif/mutants/reverts/index.json')):
    print(e['commit'], ' '.join(e['properties']))
PY
: > mutants/revert_matrix.txt
while read h props; do
  tools/run_mutant.sh mutants/reverts/$h.diff $props >> mutants/revert_matrix.txt 2>&1
done < mutants/.revert_jobs.txt
echo DONE >> mutants/revert_matrix.txt
