#!/usr/bin/env python3
"""Builds /verif/mutants/REPORT.md from the raw matrices and seeded/*/meta.json"""
import glob, json, os, re
V = '/verif'
out = ["# Sensitivity matrix", "",
       "Every row is a change to `/repo` applied to a scratch worktree of HEAD (never to `/repo` itself) and the *quick* tier of the named check run against it (`tools/run_mutant.sh`, `tools/verify_seeded.py`). `exit=1` = the check printed a VIOLATION line; `exit=0` = not detected; suite = the repository's 264 tests with the change applied.", ""]

def parse(path):
    rows, suite = [], {}
    if not os.path.exists(path):
        return rows, suite
    for l in open(path):
        m = re.match(r"SUITE (\S+): (.*)", l)
        if m:
            suite[m.group(1)] = m.group(2).strip()
        m = re.match(r"MUTANT (\S+)/(\S+)\.diff check=(\S+) exit=(\d) time=(\d+)s\s*(.*)", l)
        if m:
            sigs = [s.strip() for s in m.group(6).split("signature:") if s.strip()]
            rows.append((m.group(2), m.group(3), int(m.group(4)), int(m.group(5)), sigs[:2]))
        m = re.match(r"PATCH-DOES-NOT-APPLY .*/(\S+)\.diff", l)
        if m:
            rows.append((m.group(1), "-", -1, 0, ["patch no longer applies textually (later repair touches the same lines); see planned/ for an equivalent"]))
    return rows, suite

EQUIV = {"c5d40a2": "P37", "62461d2": "P02", "3e9bb17": "P38", "321b0da": "P39",
         "661230a": "P40", "30a64c1": "P03, P04", "a986ae1": "P41",
         "b249c0d": "P42", "aa8b9ea": "P05",
         "a749804": "none: the repaired code keeps plain dicts throughout, the defect cannot be re-introduced by a revert",
         "13e309f": "the revert applies but is harmless since repair 4da2a76: stale neighbour entries can no longer exist"}
idx = {e['commit']: e for e in json.load(open(f'{V}/mutants/reverts/index.json'))}
rows, _ = parse(f'{V}/mutants/revert_matrix.txt')
out += ["## 1. Reverts of the repairs (`mutants/reverts/<commit>.diff`)", "",
        "| commit | repair | check | result | s | first signatures |", "|---|---|---|---|---|---|"]
for name, chk, ex, t, sigs in rows:
    subj = idx.get(name, {}).get('subject', '')[:70]
    res = {1: "**caught**", 0: "not detected", -1: "n/a"}[ex]
    note = '; '.join(sigs)[:140]
    if ex != 1 and name in EQUIV:
        note = ("patch no longer applies (later repairs touch the same lines); equivalent re-introduction: "
                if ex == -1 else "") + EQUIV[name]
    out.append(f"| {name} | {subj} | {chk} | {res} | {t} | {note} |")
rows, suite = parse(f'{V}/mutants/planned_matrix.txt')
out += ["", "## 2. Planned single-site mutants (`mutants/planned/*.diff`)", "",
        "| mutant | suite | check | result | s | first signatures |", "|---|---|---|---|---|---|"]
for name, chk, ex, t, sigs in rows:
    res = {1: "**caught**", 0: "not detected", -1: "n/a"}[ex]
    out.append(f"| {name} | {suite.get(name, '?')[:40]} | {chk} | {res} | {t} | {'; '.join(sigs)[:140]} |")
out += ["", "## 3. Changes written by independent sub-agents (`seeded/<id>/`)", "",
        "Four rounds (ids `-agent-k`, `-agent-r2-k`, `-agent-r3-k`, `-agent-r4-k`). 'first run' is the result of the check of the change's own property as it stood when the change was first verified; 'now' is the re-verification of all kept changes against the final checks and the final `/repo` HEAD. Retired changes: `seeded-retired/README.md`.", "",
        "| id | what (agent's summary) | needs | suite | demo without / with patch | first run | now |", "|---|---|---|---|---|---|---|"]
n_total = n_now = n_first_missed = 0
for f in sorted(glob.glob(f'{V}/seeded/*/meta.json')):
    m = json.load(open(f)); vb = m['verified_by_me']; am = m.get('agent_meta', {})
    pid = m.get('breaks_property') or vb.get('property')
    def fmt(v):
        return "; ".join(f"{p}: {'**caught**' if c['exit'] == 1 else 'not detected' if c['exit'] == 0 else 'harness error'} ({c['seconds']} s)" for p, c in v.get('checks', {}).items())
    hist = [h for h in m.get('earlier_verifications', []) if h.get('checks') and h.get('demo_with_patch_exit') not in (0, None)]
    first = hist[0] if hist else vb
    fm = first.get('checks', {}).get(pid, {}).get('exit')
    n_total += 1
    if any(c['exit'] == 1 for c in vb.get('checks', {}).values()):
        n_now += 1
    if fm == 0:
        n_first_missed += 1
    out.append(f"| {vb['name']} | {str(am.get('summary', ''))[:160]} | {str(am.get('needs', ''))[:160]} | {vb.get('suite_tail', '')[:30]} | {vb.get('demo_without_patch_exit')} / {vb.get('demo_with_patch_exit')} | {'missed' if fm == 0 else 'caught' if fm == 1 else '?'} | {fmt(vb)} |")
out += ["", f"Kept changes: {n_total}; caught by a quick check now: {n_now}; missed by the check of their property when first verified (and the reason for an extension of a generator or oracle, see DESIGN.md 8.5): {n_first_missed}."]
open(f'{V}/mutants/REPORT.md', 'w').write("\n".join(out) + "\n")
print("written", len(out), "lines")
