#!/usr/bin/env python3
"""Builds /verif/mutants/REPORT.md from the raw matrices and seeded/*/meta.json"""
import glob, json, os, re
V = '/verif'
out = ["# Sensitivity matrix", "",
       "Every row is a change to `/repo` applied to a scratch worktree of HEAD (never to `/repo` itself) and the *quick* tier of the named check run against it (`tools/run_mutant.sh`, `tools/verify_seeded.py`). `exit=1` = the check printed a VIOLATION line; `exit=0` = not detected; suite = the repository's 264 tests with the change applied.", ""]

def parse(path):
    rows, suite = [], {}
    if not os.path.exists(path):
        return rows, suite
    for l in open(path):
        m = re.match(r"SUITE (\S+): (.*)", l)
        if m:
            suite[m.group(1)] = m.group(2).strip()
        m = re.match(r"MUTANT (\S+)/(\S+)\.diff check=(\S+) exit=(\d) time=(\d+)s\s*(.*)", l)
        if m:
            sigs = [s.strip() for s in m.group(6).split("signature:") if s.strip()]
            rows.append((m.group(2), m.group(3), int(m.group(4)), int(m.group(5)), sigs[:2]))
        m = re.match(r"PATCH-DOES-NOT-APPLY .*/(\S+)\.diff", l)
        if m:
            rows.append((m.group(1), "-", -1, 0, ["patch no longer applies textually (later repair touches the same lines); see planned/ for an equivalent"]))
    return rows, suite

idx = {e['commit']: e for e in json.load(open(f'{V}/mutants/reverts/index.json'))}
rows, _ = parse(f'{V}/mutants/revert_matrix.txt')
out += ["## 1. Reverts of the repairs (`mutants/reverts/<commit>.diff`)", "",
        "| commit | repair | check | result | s | first signatures |", "|---|---|---|---|---|---|"]
for name, chk, ex, t, sigs in rows:
    subj = idx.get(name, {}).get('subject', '')[:70]
    res = {1: "**caught**", 0: "not detected", -1: "n/a"}[ex]
    out.append(f"| {name} | {subj} | {chk} | {res} | {t} | {'; '.join(sigs)[:140]} |")
rows, suite = parse(f'{V}/mutants/planned_matrix.txt')
out += ["", "## 2. Planned single-site mutants (`mutants/planned/*.diff`)", "",
        "| mutant | suite | check | result | s | first signatures |", "|---|---|---|---|---|---|"]
for name, chk, ex, t, sigs in rows:
    res = {1: "**caught**", 0: "not detected", -1: "n/a"}[ex]
    out.append(f"| {name} | {suite.get(name, '?')[:40]} | {chk} | {res} | {t} | {'; '.join(sigs)[:140]} |")
out += ["", "## 3. Changes written by independent sub-agents (`seeded/<id>/`)", "",
        "| id | what (agent's summary) | needs | suite | demo without / with patch | checks |", "|---|---|---|---|---|---|"]
for f in sorted(glob.glob(f'{V}/seeded/*/meta.json')):
    m = json.load(open(f)); vb = m['verified_by_me']; am = m.get('agent_meta', {})
    det = "; ".join(f"{p}: {'**caught**' if v['exit'] == 1 else 'not detected' if v['exit'] == 0 else 'harness error'} ({v['seconds']} s)" for p, v in vb.get('checks', {}).items())
    out.append(f"| {vb['name']} | {str(am.get('summary', ''))[:160]} | {str(am.get('needs', ''))[:160]} | {vb.get('suite_tail', '')[:30]} | {vb.get('demo_without_patch_exit')} / {vb.get('demo_with_patch_exit')} | {det} |")
open(f'{V}/mutants/REPORT.md', 'w').write("\n".join(out) + "\n")
print("written", len(out), "lines")
