#!/usr/bin/env python3
"""Regenerates /verif/MANIFEST.json from the table below (and validates it)."""
import json
import os
import sys

HERE = os.path.dirname(os.path.dirname(os.path.abspath(__file__)))

BASELINE_CMD = ("cd /repo && env -u STEREOMOLGRAPH_VERIF /venv/bin/python -m pytest -ra -q "
                "-p no:cacheprovider --timeout=900 --continue-on-collection-errors")

CHECKS = json.load(open(os.path.join(HERE, 'tools', 'checks.json')))

NOT_YET = "check not built yet in this session (planned, see DESIGN.md section 4)"


def main():
    props = [json.loads(line) for line in open(os.path.join(HERE, "properties.jsonl"))]
    ids = [p["id"] for p in props]
    checks = []
    na = []
    extra_na = {}
    na_file = os.path.join(HERE, "tools", "not_applicable.json")
    if os.path.exists(na_file):
        extra_na = json.load(open(na_file))
    for pid in ids:
        if pid in CHECKS and pid not in extra_na:
            c = CHECKS[pid]
            cat, tech, text, note, ref = c['category'], c['technique'], c['text'], c['note'], c['ref']
            checks.append({
                "property_id": pid,
                "quick_cmd": f"./check {pid} --tier quick",
                "thorough_cmd": f"./check {pid} --tier thorough",
                "evidence_file": f"evidence/{pid}.json",
                "replay_cmd_template": f"./check {pid} --replay {{path}}",
                "engine": "vp",
                "level_claimed": {"category": cat, "text": text, "design_ref": ref},
                "level_note": note,
                "technique": tech,
            })
        else:
            na.append({"property_id": pid, "reason": extra_na.get(pid, NOT_YET)})
    manifest = {
        "version": 1,
        "setup_cmd": "./setup.sh",
        "hooks": {
            "guard": "STEREOMOLGRAPH_VERIF",
            "enable": "no hooks were needed: every property is observable through the public API; "
                      "./check exports STEREOMOLGRAPH_VERIF=1 for uniformity but the repository never reads it",
            "baseline_off_cmd": BASELINE_CMD,
            "source_commits": [],
            "add_only": True,
        },
        "engines": [{
            "name": "vp",
            "path": "vp/",
            "serves_properties": [c["property_id"] for c in checks],
            "kind_free_text": "property-based testing: Hypothesis-drawn byte tapes turned into JSON recipes / "
                              "operation histories by plain generator functions, exhaustive enumeration of finite "
                              "domains, bounded BFS over operation histories, recipe-level delta debugging; thorough "
                              "tier adds coverage-guided atheris / libFuzzer campaigns over the same generators and "
                              "checks (vp/fuzzchild.py); oracles = geometric symmetry groups, pure-Python reference "
                              "model, brute-force isomorphism, round trips, metamorphic relations",
        }],
        "checks": checks,
        "not_applicable": na,
        "notes": "All checks run against /repo's working tree (src first on PYTHONPATH; refuses otherwise). "
                 "VERIF_SEED seeds every generator; PYTHONHASHSEED is pinned to 0 by ./check. Exit 2 = harness "
                 "error (never reported as a violation). Known findings: known_findings.json.",
    }
    out = os.path.join(HERE, "MANIFEST.json")
    with open(out, "w") as fh:
        json.dump(manifest, fh, indent=1)
        fh.write("\n")
    try:
        import jsonschema
        schema = json.load(open("/root/.vp/MANIFEST.schema.json"))
        jsonschema.validate(manifest, schema)
        print("MANIFEST.json valid;", len(checks), "checks,", len(na), "not_applicable")
    except ImportError:
        print("jsonschema missing; not validated")


if __name__ == "__main__":
    sys.exit(main())
