#!/usr/bin/env python3
"""Regenerates /verif/MANIFEST.json from the table below (and validates it)."""
import json
import os
import sys

HERE = os.path.dirname(os.path.dirname(os.path.abspath(__file__)))

BASELINE_CMD = ("cd /repo && env -u STEREOMOLGRAPH_VERIF /venv/bin/python -m pytest -ra -q "
                "-p no:cacheprovider --timeout=900 --continue-on-collection-errors")

# pid -> (category, technique, text, note, design_ref)
CHECKS = {
    "C01": (
        "exploration",
        "metamorphic property-based testing (Hypothesis byte tape -> recipe; renamed / re-ordered / re-spelled variant must compare equal), recipe-level delta debugging",
        "A graph and a variant that is the same graph by construction (bijective renaming with arbitrary ints, shuffled insertion order, every descriptor re-expressed by an independent geometric symmetry element, or the library's own relabel_atoms in both modes) must be == in both directions, is_isomorphic and reflexive, for all four classes incl. empty graphs, isolated atoms, several components, placeholders, unspecified parity, all bond roles and stereo changes. Sampling is the right level: the domain is infinite and the relation is known by construction, so no oracle search is needed and thousands of cases per run are cheap.",
        "Trusted: vp/symmetry.py re-expression (validated exhaustively against the descriptor classes by C04) and the model's relabel. Only the never-misses direction; C02 is the converse.",
        "DESIGN.md section 4 C01",
    ),
    "C04": (
        "exploration",
        "exhaustive enumeration of the finite descriptor domain against a geometric symmetry oracle",
        "Every ordered pair of orderings (all 120x120 for 5-position classes, identity row x all 720/5040 plus "
        "sampled rows for 6/7-position classes; all rows in thorough) x all parity pairs x placeholder patterns x "
        "three id renamings is compared with symmetry groups computed from idealised 3-D figures "
        "(distance-preserving permutations split by orientation). The domain is finite, so enumeration - not "
        "sampling - is the right level; it decides ==, symmetry of ==, hash agreement, invert laws and the "
        "None-parity rule for every table row.",
        "Trusted: the idealised figures in vp/symmetry.py (positions per class docstring); itertools. "
        "Hash agreement is not asserted for None-vs-specified parity.",
        "DESIGN.md section 4 C04, section 3.1",
    ),
}

NOT_YET = "check not built yet in this session (planned, see DESIGN.md section 4)"


def main():
    props = [json.loads(line) for line in open(os.path.join(HERE, "properties.jsonl"))]
    ids = [p["id"] for p in props]
    checks = []
    na = []
    extra_na = {}
    na_file = os.path.join(HERE, "tools", "not_applicable.json")
    if os.path.exists(na_file):
        extra_na = json.load(open(na_file))
    for pid in ids:
        if pid in CHECKS and pid not in extra_na:
            cat, tech, text, note, ref = CHECKS[pid]
            checks.append({
                "property_id": pid,
                "quick_cmd": f"./check {pid} --tier quick",
                "thorough_cmd": f"./check {pid} --tier thorough",
                "evidence_file": f"evidence/{pid}.json",
                "replay_cmd_template": f"./check {pid} --replay {{path}}",
                "engine": "vp",
                "level_claimed": {"category": cat, "text": text, "design_ref": ref},
                "level_note": note,
                "technique": tech,
            })
        else:
            na.append({"property_id": pid, "reason": extra_na.get(pid, NOT_YET)})
    manifest = {
        "version": 1,
        "setup_cmd": "./setup.sh",
        "hooks": {
            "guard": "STEREOMOLGRAPH_VERIF",
            "enable": "no hooks were needed: every property is observable through the public API; "
                      "./check exports STEREOMOLGRAPH_VERIF=1 for uniformity but the repository never reads it",
            "baseline_off_cmd": BASELINE_CMD,
            "source_commits": [],
            "add_only": True,
        },
        "engines": [{
            "name": "vp",
            "path": "vp/",
            "serves_properties": [c["property_id"] for c in checks],
            "kind_free_text": "property-based testing: Hypothesis strategies / rule-based state machines over "
                              "JSON recipes, exhaustive enumeration of finite domains, bounded BFS over operation "
                              "histories; oracles = geometric symmetry groups, pure-Python reference model, "
                              "brute-force isomorphism, round trips, metamorphic relations",
        }],
        "checks": checks,
        "not_applicable": na,
        "notes": "All checks run against /repo's working tree (src first on PYTHONPATH; refuses otherwise). "
                 "VERIF_SEED seeds every generator; PYTHONHASHSEED is pinned to 0 by ./check. Exit 2 = harness "
                 "error (never reported as a violation). Known findings: known_findings.json.",
    }
    out = os.path.join(HERE, "MANIFEST.json")
    with open(out, "w") as fh:
        json.dump(manifest, fh, indent=1)
        fh.write("\n")
    try:
        import jsonschema
        schema = json.load(open("/root/.vp/MANIFEST.schema.json"))
        jsonschema.validate(manifest, schema)
        print("MANIFEST.json valid;", len(checks), "checks,", len(na), "not_applicable")
    except ImportError:
        print("jsonschema missing; not validated")


if __name__ == "__main__":
    sys.exit(main())
