#!/bin/sh
cd /verif
: > mutants/planned_matrix.txt
run() {
  f=$1; shift
  WT="$(mktemp -d /tmp/vp-pl-XXXXXX)"; rmdir "$WT"
  git -C /repo worktree add -q --detach "$WT" HEAD || return
  if git -C "$WT" apply "/verif/mutants/planned/$f.diff"; then
    S=$(cd "$WT" && PYTHONPATH="$WT/src" /venv/bin/python -m pytest -q -p no:cacheprovider -n 4 2>&1 | tail -1)
    echo "SUITE $f: $S" >> mutants/planned_matrix.txt
  fi
  git -C /repo worktree remove --force "$WT"
  tools/run_mutant.sh mutants/planned/$f.diff "$@" >> mutants/planned_matrix.txt 2>&1
}
run P01-own-colour-first-cancels C16 C02
run P02-tbp-import-axial-not-moved C12
run P03-relabel-copy-shares-attr-dicts C10
run P04-subgraph-shares-attr-dicts C10
run P05-stereo-change-feasibility-indexes-g2-by-u C01
run P07-multiset-hash-without-sort C03
run P08-octahedral-table-row-transposed C04
run P09-tetrahedral-inversion-is-3cycle C04
run P10-descriptor-hash-ignores-parity C04
run P11-vf2-yield-without-copy C05
run P12-enantiomer-mutates-self C06
run P13-handedness-sign-flipped C07 C14
run P14-reactant-overlays-formed C08
run P15-reverse-keeps-stereo-changes-unswapped C08
run P16-remove-atom-leaves-neighbour-sets C09
run P17-smg-remove-atom-purges-atom-stereo-only C09
run P18-relabel-descriptor-centres-not-ligands C11
run P19-cw-ccw-swapped-on-import C14
run P20-oh-import-table-entry-transposed C12
run P21-ez-invert-applied-to-end-atom C12 C14
run P22-json-parity-as-bool C15
run P23-json-formed-broken-swapped-on-read C15
run P24-subgraph-keeps-bonds-with-one-end-in-S C17
run P25-components-visited-not-updated C17
run P26-compose-overwrites-neighbour-sets C17
run P27-add-bond-writes-before-checking C19
run P28-set-atom-stereo-change-writes-before-validating C19
run P29-xyz-writer-6-decimals C20
run P30-cutoff-factor-1.25 C20
run P31-radius-of-bromine-altered C20
run P32-bo-get-bo-increments-one-triangle C18
run P33-sp-import-label3-order C12
run P34-from-graphs-fleeting-as-plain C08
run P35-planar-bond-compares-wrong-vectors C07 C14
run P36-symmetry-number-without-stereo C05
run P37-sulfur-hexavalent-first C18
run P38-scrg-subgraph-drops-stereo-changes C17
run P39-subgraph-consumes-one-shot-iterator C17
run P40-scrg-copy-ctor-shares-change-dicts C10
run P41-scrg-remove-atom-keeps-stereo-changes C09
run P42-attribute-tables-autovivify C09 C19
echo DONE >> mutants/planned_matrix.txt
